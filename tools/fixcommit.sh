#!/bin/bash
# tools/fixcommit.sh "<message>" : commits /repo's working tree only if the repository's own suite passes (81)
set -e
cd /repo
cargo fmt -p swc-vue-jsx-visitor
OUT=$(cargo test --offline -p swc-vue-jsx-visitor 2>&1 || true)
if echo "$OUT" | grep -q "test result: ok. 81 passed"; then git commit -qam "$1" && echo "COMMITTED: $(git log --oneline | head -1)"; else echo "SUITE FAILED - not committed"; echo "$OUT" | grep -E "FAILED|panicked|^error" | head; exit 1; fi
