#!/bin/bash
# tools/seedtest.sh <patch.diff> <Cxx> [<Cyy> ...]
# Applies a seeded fault to /repo, confirms the repository's own suite still passes (81), runs the
# given quick checks (evidence/replay redirected to scratch), and always reverts /repo afterwards.
set -u
PATCH="$(realpath "$1")"; shift
cd /verif
if ! git -C /repo diff --quiet; then echo "SEEDTEST: /repo has uncommitted changes, refusing"; exit 3; fi
if ! git -C /repo apply --check "$PATCH" 2>/dev/null; then echo "SEEDTEST: patch does not apply to current HEAD: $PATCH"; exit 4; fi
git -C /repo apply "$PATCH"
trap 'git -C /repo checkout -- . ; git -C /repo clean -fdq visitor plugin 2>/dev/null' EXIT
SUITE=$(cd /repo && cargo test --offline -p swc-vue-jsx-visitor 2>&1 | grep -E "test result: .* ([0-9]+) passed" | grep -v " 0 passed" | head -1)
echo "SEEDTEST suite: $SUITE"
export VERIF_REPLAY_DIR=/tmp/seedreplay VERIF_EVIDENCE_DIR=/tmp/seedevidence
mkdir -p $VERIF_REPLAY_DIR $VERIF_EVIDENCE_DIR
for C in "$@"; do
  rm -rf $VERIF_REPLAY_DIR/$C
  OUT=$(./check $C --tier quick 2>&1); RC=$?
  NV=$(echo "$OUT" | grep -c "^VIOLATION")
  echo "SEEDTEST $C exit=$RC violations=$NV :: $(echo "$OUT" | grep "^\[$C" | sed 's/.*failing_cases/failing_cases/')"
  echo "$OUT" | grep "^VIOLATION" | head -2
  F=$(echo "$OUT" | grep "^VIOLATION" | head -1 | sed 's/.*replay=//')
  if [ -n "$F" ]; then python3 -c "
import json,sys
d=json.load(open('$F'))
print('   minimal:',d['minimal_key'],'| clause',d['clause'],'|',d['diff'],'|',(d.get('msg') or '')[:150])
"; fi
done
