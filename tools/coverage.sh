#!/bin/bash
# tools/coverage.sh [Cxx ...] : which lines of /repo/visitor/src the quick tiers reach (supplementary measurement, not a
# verdict and not registered in MANIFEST.json). Builds an instrumented copy of the driver with the nightly toolchain
# (-C instrument-coverage), runs the quick tier of the given checks (default: all) against it with evidence/replay
# redirected to scratch, merges the profiles and prints llvm-cov's per-file report plus the uncovered lines.
# Everything lives under a scratch directory that is removed at the end.
set -u
S=$(mktemp -d /tmp/verif_cov.XXXXXX)
B=$(ls -d ~/.rustup/toolchains/nightly-x86_64-unknown-linux-gnu/lib/rustlib/*/bin | head -1)
trap 'rm -rf "$S"' EXIT
rsync -a --exclude target /verif/driver/ "$S/driver/"
mkdir -p "$S/prof0"
(cd "$S/driver" && LLVM_PROFILE_FILE="$S/prof0/build-%p.profraw" RUSTFLAGS="-C instrument-coverage" cargo +nightly build --release --offline --target-dir "$S/target" 2>&1 | tail -1)
CHECKS="${*:-C01 C02 C03 C04 C05 C06 C07 C08 C09 C10 C11 C12 C13 C14 C15 C16 C17 C18 C19 C20}"
mkdir -p "$S/prof" "$S/ev" "$S/rp"
for c in $CHECKS; do
  VERIF_DRIVER_GRACEFUL=1 LLVM_PROFILE_FILE="$S/prof/%p-%8m.profraw" VJDRIVER="$S/target/release/vjdriver" VERIF_EVIDENCE_DIR="$S/ev" VERIF_REPLAY_DIR="$S/rp" \
    node /verif/explore/run.js "$c" --tier quick 2>&1 | grep -E "^\[C" | cut -c1-120
done
"$B/llvm-profdata" merge -sparse "$S"/prof/*.profraw -o "$S/all.profdata"
"$B/llvm-cov" report "$S/target/release/vjdriver" -instr-profile="$S/all.profdata" /repo/visitor/src/*.rs /repo/plugin/src/lib.rs 2>/dev/null | cut -c1-200
for f in /repo/visitor/src/*.rs; do
  echo "== uncovered lines of $f"
  "$B/llvm-cov" show "$S/target/release/vjdriver" -instr-profile="$S/all.profdata" "$f" -show-line-counts-or-regions=false 2>/dev/null | grep -E "^ +[0-9]+\| +0\|" | cut -c1-140
done
rm -f /repo/visitor/*.profraw /repo/*.profraw 2>/dev/null
