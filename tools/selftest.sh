#!/bin/bash
# tools/selftest.sh [ids...] : every seeded fault under /verif/seeded must (a) apply to /repo's HEAD, (b) leave the
# repository's own suite green, (c) make at least one of the checks listed in its meta.json exit 1 with a VIOLATION.
cd /verif
FAIL=0
for d in seeded/*/; do
  id=$(basename $d)
  if [ $# -gt 0 ] && ! echo " $* " | grep -q " $id "; then continue; fi
  sup=$(python3 -c "import json;print(json.load(open('$d/meta.json')).get('superseded_by_fix',''))")
  if [ -n "$sup" ]; then echo "SELFTEST $id: superseded by fix $sup (the change is no longer a fault on this tree)"; continue; fi
  nc=$(python3 -c "import json;print('1' if json.load(open('$d/meta.json')).get('not_claimed') else '')")
  if [ -n "$nc" ]; then echo "SELFTEST $id: not claimed (the change does not violate the property as stated; see its meta.json)"; continue; fi
  checks=$(python3 -c "import json;print(' '.join(json.load(open('$d/meta.json'))['caught_by']))")
  out=$(tools/seedtest.sh $d/patch.diff $checks 2>&1)
  suite=$(echo "$out" | grep -c "81 passed")
  caught=$(echo "$out" | grep -E "^SEEDTEST C[0-9]+ exit=1" | wc -l)
  if echo "$out" | grep -q "does not apply"; then echo "SELFTEST $id: PATCH DOES NOT APPLY"; FAIL=1; continue; fi
  if [ "$suite" -lt 1 ]; then echo "SELFTEST $id: repository suite not green with the patch"; FAIL=1; fi
  if [ "$caught" -lt 1 ]; then echo "SELFTEST $id: NOT CAUGHT by [$checks]"; FAIL=1; else echo "SELFTEST $id: caught by $(echo "$out" | grep -E "^SEEDTEST C[0-9]+ exit=1" | sed 's/SEEDTEST \(C[0-9]*\).*/\1/' | tr '\n' ' ')"; fi
done
exit $FAIL
