'use strict';
// the spaces a check enumerates (names as they appear under coverage.bounds of its evidence file)
function spaceList(c) { try { const q = c.spaces('quick', null).map((x) => x.name); const t = c.spaces('thorough', null).map((x) => x.name).filter((n) => !q.includes(n)); return ' Spaces enumerated: ' + q.join('; ') + (t.length ? '; thorough only: ' + t.join('; ') : '') + '.'; } catch (e) { return ''; } }
// Regenerates MANIFEST.json from the check modules that exist under explore/checks.
const fs = require('fs');
const path = require('path');
const ROOT = path.join(__dirname, '..');
const props = fs.readFileSync(path.join(ROOT, 'properties.jsonl'), 'utf8').trim().split('\n').map((l) => JSON.parse(l));
const checks = [];
const na = [];
for (const p of props) {
  const f = path.join(ROOT, 'explore', 'checks', p.id + '.js');
  if (!fs.existsSync(f)) { na.push({ property_id: p.id, reason: 'bounded exhaustive exploration applies (DESIGN.md §4) but the check is not built yet in this revision; nothing is claimed for it' }); continue; }
  const c = require(f);
  checks.push({
    property_id: p.id,
    quick_cmd: `./check ${p.id} --tier quick`,
    thorough_cmd: `./check ${p.id} --tier thorough`,
    evidence_file: `/verif/evidence/${p.id}.json`,
    replay_cmd_template: `./check ${p.id} --replay {path}`,
    engine: 'explore',
    level_claimed: {
      category: 'model_checking',
      text: c.levelText || ('Bounded exhaustive exploration: ' + c.rule + spaceList(c)),
      design_ref: 'DESIGN.md §4 ' + p.id,
    },
    level_note: (c.assumptions || []).join('; ') + '; small-scope claim: nothing is said about inputs beyond the stated bounds',
    technique: c.technique || 'explicit-state breadth-first enumeration of construction histories over a finite alphabet, each state executed on the real transform (vjdriver) and compared with an executable reference model / differential oracle',
  });
}
const manifest = {
  version: 1,
  setup_cmd: 'cd /verif/driver && CARGO_NET_OFFLINE=true cargo build --release --offline',
  hooks: {
    guard: 'cargo feature `verif` of swc-vue-jsx-visitor',
    enable: 'the driver crate depends on /repo/visitor by path with features=["verif"]; every ./check run starts with cargo build --release --offline in /verif/driver',
    baseline_off_cmd: 'cd /repo && cargo test --workspace --no-fail-fast --offline',
    source_commits: fs.existsSync(path.join(ROOT, 'hooks_commits.txt')) ? fs.readFileSync(path.join(ROOT, 'hooks_commits.txt'), 'utf8').trim().split('\n') : [],
    add_only: true,
  },
  engines: [
    { name: 'vjdriver', path: '/verif/driver', serves_properties: checks.map((c) => c.property_id), kind_free_text: 'Rust JSONL server running the real visitor / the natively compiled real plugin entry from /repo\'s working tree; extracts facts (diagnostics, JSX census, free variables, generated bindings, frame comparison, printed output, eval-ready rendering)' },
    { name: 'explore', path: '/verif/explore', serves_properties: checks.map((c) => c.property_id), kind_free_text: 'node: sharded breadth-first explorer, mock Vue runtime, reference models, reduction to 1-minimal failing histories, known-finding matching, evidence' },
  ],
  checks,
  not_applicable: na,
  notes: 'Exit codes: 0 held (possibly with KNOWN-FINDING lines), 1 VIOLATION, 2 ENGINE-ERROR (machinery failure, never a verdict). known_findings.json is read-only at run time.',
};
fs.writeFileSync(path.join(ROOT, 'MANIFEST.json'), JSON.stringify(manifest, null, 1) + '\n');
console.log('claimed', checks.length, 'n/a', na.length);
