#!/usr/bin/env python3
# tools/saveseed.py <Cxx> <k> <caught_by comma list> [note]   -- copies an agent-produced seed into /verif/seeded/<Cxx>-<k>/
import json,sys,os,shutil,subprocess
cid,k,caught=sys.argv[1],sys.argv[2],sys.argv[3]
note=sys.argv[4] if len(sys.argv)>4 else ''
src='/tmp/seed/%s/OUT'%cid
prop=cid[:3]
dst='/verif/seeded/%s-%s'%(cid,k)
os.makedirs(dst,exist_ok=True)
if not os.path.exists(dst+'/patch.diff'):
    shutil.copy('%s/patch%s.diff'%(src,k),dst+'/patch.diff')
shutil.copy('%s/demo%s.rs'%(src,k),dst+'/demo.rs')
m=json.load(open('%s/meta%s.json'%(src,k)))
head=subprocess.check_output(['git','-C','/repo','rev-parse','--short','HEAD']).decode().strip()
meta={'property':prop,'summary':m.get('summary'),'needs':m.get('needs'),'example_input':m.get('example_input'),'expected_vs_actual':m.get('expected_vs_actual'),
 'origin':'independent sub-agent given only the property text and a scratch worktree',
 'confirmed':'applied to /repo (git apply), `cargo test --offline -p swc-vue-jsx-visitor` = 81 passed, demo.rs passes on the clean tree and fails with the patch (agent-run, re-run by tools/seedtest.sh for the suite part), reverted afterwards',
 'ran':'tools/seedtest.sh seeded/%s-%s/patch.diff %s'%(cid,k,' '.join(caught.split(',')) if caught!='-' else prop),
 'caught_by':[] if caught=='-' else caught.split(','),'checked_at_repo_head':head,'note':note}
json.dump(meta,open(dst+'/meta.json','w'),indent=1)
print('saved',dst)
