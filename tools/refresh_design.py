#!/usr/bin/env python3
"""Refresh the generated tables of DESIGN.md (last-run column of §11.3, seed metadata head)."""
import json,glob,re,subprocess
s=open('/verif/DESIGN.md').read()
cut=s.index('### 11.3'); pre,s=s[:cut],s[cut:]
for f in glob.glob('/verif/evidence/C*.json'):
    d=json.load(open(f)); c=d['property_id']
    row='%s: %.2e states (%.2e executions), %.0f s'%(d['tier'],d['coverage']['states'],d['coverage']['evaluations'],d['wall_s'])
    s=re.sub(r'(\| %s \| [^\n]*\| )[^|\n]*( \|\n)'%c, lambda m:m.group(1)+row+m.group(2), s, count=1)
open('/verif/DESIGN.md','w').write(pre+s)
head=subprocess.check_output(['git','-C','/repo','rev-parse','--short','HEAD']).decode().strip()
for m in glob.glob('/verif/seeded/*/meta.json'):
    d=json.load(open(m)); d['checked_at_repo_head']=head; json.dump(d,open(m,'w'),indent=1,ensure_ascii=False)

# ---- regenerate the generated lists: §12.1 fix commits, §12.2 open findings, §13 seed table
import re
d=open('/verif/DESIGN.md').read()
fixes=[f for f in subprocess.check_output(['git','-C','/repo','log','--reverse','--format=%h %s','c0802c3..HEAD']).decode().strip().split('\n') if ' fix:' in f]
lst='\n'.join('* `%s` %s'%(f.split(' ',1)[0], f.split(' ',1)[1][5:]) for f in fixes)
d=re.sub(r"(### 12\.1 Repaired \(`fix:` commits in /repo, oldest first; )\d+( commits\)\n\n)(?:\* `[0-9a-f]+` [^\n]*\n)+", lambda m: m.group(1)+str(len(fixes))+m.group(2)+lst+'\n', d)
kf=json.load(open('/verif/known_findings.json'))['findings']
openf=[f for f in kf if f['status']=='open']
rows='\n'.join('| %s | `%s` (%s) | %s |'%(f['property'], f['minimal'].replace('|','\\|'), f['clause'], f['what'].replace('|','\\|')) for f in openf)
d=re.sub(r"(\| property \| minimal failing case \| what fails / why not repaired \|\n\|---\|---\|---\|\n)(?:\|[^\n]*\n)+", lambda m: m.group(1)+rows+'\n', d)
srows=[]
for m in sorted(glob.glob('/verif/seeded/*/meta.json')):
    x=json.load(open(m)); sid=m.split('/')[-2]
    srows.append('| %s | %s | %s | %s |'%(sid, (x.get('summary') or '')[:150].replace('|','\\|').replace('\n',' '), ', '.join(x['caught_by']), (x.get('note') or '').replace('|','\\|')[:300]))
d=re.sub(r"(\| seed \| change \| caught by \| note \|\n\|---\|---\|---\|---\|\n)(?:\|[^\n]*\n)+", lambda m: m.group(1)+'\n'.join(srows)+'\n', d)
d=re.sub(r"reported on the unchanged tree \(\d+ `fix:` commits, \d+ recorded findings\)", "reported on the unchanged tree (%d `fix:` commits, %d recorded findings)"%(len(fixes),len(openf)), d)
open('/verif/DESIGN.md','w').write(d)
print('fixes',len(fixes),'open',len(openf),'seeds',len(srows))
