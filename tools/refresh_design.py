#!/usr/bin/env python3
"""Refresh the generated tables of DESIGN.md (last-run column of §11.3, seed metadata head)."""
import json,glob,re,subprocess
s=open('/verif/DESIGN.md').read()
cut=s.index('### 11.3'); pre,s=s[:cut],s[cut:]
for f in glob.glob('/verif/evidence/C*.json'):
    d=json.load(open(f)); c=d['property_id']
    row='%s: %.2e states (%.2e executions), %.0f s'%(d['tier'],d['coverage']['states'],d['coverage']['evaluations'],d['wall_s'])
    s=re.sub(r'(\| %s \| [^\n]*\| )[^|\n]*( \|\n)'%c, lambda m:m.group(1)+row+m.group(2), s, count=1)
open('/verif/DESIGN.md','w').write(pre+s)
head=subprocess.check_output(['git','-C','/repo','rev-parse','--short','HEAD']).decode().strip()
for m in glob.glob('/verif/seeded/*/meta.json'):
    d=json.load(open(m)); d['checked_at_repo_head']=head; json.dump(d,open(m,'w'),indent=1,ensure_ascii=False)
