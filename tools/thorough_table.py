#!/usr/bin/env python3
# tools/thorough_table.py <THOROUGH_<head>.log> : rewrites DESIGN.md §11.6 (head, log name, table) from the log of a full thorough run
import re,sys
log=sys.argv[1]
head=re.search(r'THOROUGH_(\w+)\.log',log).group(1)
rows=[]
for l in open(log):
    m=re.match(r'\[(C\d+)/thorough\] states=(\d+) transitions=\d+ executions=(\d+) validated=\d+ distinct_observations=(\d+).*? known=(\d+) unknown=(\d+) engine_errors=(\d+) wall=([\d.]+)s',l)
    if m: rows.append(m.groups())
assert len(rows)==20,len(rows)
f=lambda n:format(int(n),',')
tab='| prop | states | executions | distinct observations | known findings hit | unknown violations | wall |\n|---|---|---|---|---|---|---|\n'+''.join('| %s | %s | %s | %s | %s | %s | %s s |\n'%(r[0],f(r[1]),f(r[2]),f(r[3]),r[4],r[5],r[7]) for r in rows)
p='/verif/DESIGN.md'
s=open(p).read()
a=s.index('### 11.6 Thorough tiers on the final tree'); b=s.index('## 12. Triage')
sec='### 11.6 Thorough tiers on the final tree\n\nAll twenty thorough commands were run once more against /repo at `%s` (log: `THOROUGH_%s.log`; the machine was shared, wall times are upper bounds). Every one exits 0; `known` counts the open findings of §12.2 that the run met again.\n\n%s\n'%(head,head,tab)
open(p,'w').write(s[:a]+sec+s[b:])
print('engine errors:',sum(int(r[6]) for r in rows),'unknown:',sum(int(r[5]) for r in rows))
