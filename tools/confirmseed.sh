#!/bin/bash
# tools/confirmseed.sh <ID> <k>  -- confirm an agent-produced seed in its scratch worktree /tmp/seed/<ID>:
# clean tree: demo passes; with the patch: 81 fixtures pass and the demo fails. Always reverts.
set -u
ID=$1; K=$2; W=/tmp/seed/$ID
cd $W || exit 3
export CARGO_NET_OFFLINE=true CARGO_TARGET_DIR=$W/target
git checkout -q -- visitor plugin; rm -f visitor/tests/seed_demo.rs
cp OUT/demo$K.rs visitor/tests/seed_demo.rs
CLEAN=$(cargo test --offline -p swc-vue-jsx-visitor --test seed_demo 2>&1 | grep -E "^test result" | head -1)
git apply OUT/patch$K.diff || { echo "CONFIRM $ID-$K: patch does not apply"; rm -f visitor/tests/seed_demo.rs; exit 4; }
SUITE=$(cargo test --offline -p swc-vue-jsx-visitor --test fixture 2>&1 | grep -E "^test result" | head -1)
DEMO=$(cargo test --offline -p swc-vue-jsx-visitor --test seed_demo 2>&1 | grep -E "^test result|error\[" | head -1)
git checkout -q -- visitor plugin; rm -f visitor/tests/seed_demo.rs
echo "CONFIRM $ID-$K clean-demo: $CLEAN"
echo "CONFIRM $ID-$K patched-suite: $SUITE"
echo "CONFIRM $ID-$K patched-demo: $DEMO"
