import json,glob,sys
rows=[]
for f in glob.glob('/verif/replay/%s/*.json'%sys.argv[1]):
    d=json.load(open(f))
    rows.append((d['minimal_key'],d['clause'],d['diff'],d['failing_cases'],json.dumps(d.get('expected'))[:int(sys.argv[2]) if len(sys.argv)>2 else 100],json.dumps(d.get('observed'))[:int(sys.argv[2]) if len(sys.argv)>2 else 100], d.get('msg')))
for r in sorted(rows)[:120]: print(r)
print(len(rows))
