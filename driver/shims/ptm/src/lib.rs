//! Identity replacement for `#[plugin_transform]`: the real macro generates the
//! WASM ABI entry (`__transform_plugin_process_impl`) around the function; natively
//! we call the function itself.
use proc_macro::TokenStream;

#[proc_macro_attribute]
pub fn plugin_transform(_attr: TokenStream, item: TokenStream) -> TokenStream {
    item
}
