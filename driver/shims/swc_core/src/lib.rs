//! A crate *named* `swc_core` so that /repo/plugin/src/lib.rs compiles natively, unmodified.
//! Everything is the real swc_core except the two items that only exist across the WASM
//! boundary: `plugin::plugin_transform` and `plugin::proxies::TransformPluginProgramMetadata`.
pub use real_swc_core::{atoms, common, ecma};

pub mod plugin {
    pub use ptm::plugin_transform;
    pub use real_swc_core::plugin::errors;
    pub use real_swc_core::plugin::metadata;

    pub mod proxies {
        use real_swc_core::common::{comments::SingleThreadedComments, Mark};

        /// Native stand-in with the same field / method surface the plugin entry uses.
        pub struct TransformPluginProgramMetadata {
            pub comments: Option<SingleThreadedComments>,
            pub unresolved_mark: Mark,
            pub plugin_config: Option<String>,
        }

        impl TransformPluginProgramMetadata {
            pub fn get_transform_plugin_config(&self) -> Option<String> {
                self.plugin_config.clone()
            }
        }
    }
}
