//! "eval-ready" rendering of the final (post hygiene/fixer) AST for node:
//!   * TypeScript erased (declarations, annotations, type params/args, `as`-like wrappers),
//!   * `import … from S` rewritten to hoisted `const {…} = __import(S)`,
//!   * `export` stripped (`export default e` → `__out.__default = e`).
//! Exercised only on generated programs of known shape (trusted base, DESIGN §6).

use swc_core::{
    common::{sync::Lrc, SourceMap, SyntaxContext, DUMMY_SP},
    ecma::{
        ast::*,
        codegen::to_code_default,
        visit::{VisitMut, VisitMutWith},
    },
};

struct TsEraser;

fn is_ts_decl(d: &Decl) -> bool {
    matches!(
        d,
        Decl::TsInterface(..) | Decl::TsTypeAlias(..) | Decl::TsModule(..)
    ) || matches!(d, Decl::Var(v) if v.declare)
        || matches!(d, Decl::Fn(f) if f.declare)
        || matches!(d, Decl::Class(c) if c.declare)
}

impl VisitMut for TsEraser {
    fn visit_mut_module_items(&mut self, items: &mut Vec<ModuleItem>) {
        items.retain(|i| match i {
            ModuleItem::Stmt(Stmt::Decl(d)) => !is_ts_decl(d),
            ModuleItem::ModuleDecl(ModuleDecl::ExportDecl(e)) => !is_ts_decl(&e.decl),
            ModuleItem::ModuleDecl(ModuleDecl::Import(i)) => !i.type_only,
            ModuleItem::ModuleDecl(ModuleDecl::ExportNamed(e)) => !e.type_only,
            ModuleItem::ModuleDecl(ModuleDecl::TsImportEquals(..))
            | ModuleItem::ModuleDecl(ModuleDecl::TsExportAssignment(..))
            | ModuleItem::ModuleDecl(ModuleDecl::TsNamespaceExport(..)) => false,
            _ => true,
        });
        for i in items.iter_mut() {
            if let ModuleItem::ModuleDecl(ModuleDecl::Import(imp)) = i {
                imp.specifiers.retain(|s| match s {
                    ImportSpecifier::Named(n) => !n.is_type_only,
                    _ => true,
                });
            }
        }
        items.visit_mut_children_with(self);
    }

    fn visit_mut_stmts(&mut self, stmts: &mut Vec<Stmt>) {
        stmts.retain(|s| match s {
            Stmt::Decl(d) => !is_ts_decl(d),
            _ => true,
        });
        stmts.visit_mut_children_with(self);
    }

    fn visit_mut_expr(&mut self, e: &mut Expr) {
        loop {
            let inner = match e {
                Expr::TsAs(x) => Some(x.expr.clone()),
                Expr::TsNonNull(x) => Some(x.expr.clone()),
                Expr::TsTypeAssertion(x) => Some(x.expr.clone()),
                Expr::TsConstAssertion(x) => Some(x.expr.clone()),
                Expr::TsSatisfies(x) => Some(x.expr.clone()),
                Expr::TsInstantiation(x) => Some(x.expr.clone()),
                _ => None,
            };
            match inner {
                Some(i) => *e = *i,
                None => break,
            }
        }
        e.visit_mut_children_with(self);
    }

    fn visit_mut_simple_assign_target(&mut self, t: &mut SimpleAssignTarget) {
        // `(x as T) = v`, `x! = v`, `(x satisfies T) = v`: the wrappers vanish with the types
        loop {
            let inner = match t {
                SimpleAssignTarget::TsAs(x) => Some(x.expr.clone()),
                SimpleAssignTarget::TsNonNull(x) => Some(x.expr.clone()),
                SimpleAssignTarget::TsTypeAssertion(x) => Some(x.expr.clone()),
                SimpleAssignTarget::TsSatisfies(x) => Some(x.expr.clone()),
                SimpleAssignTarget::TsInstantiation(x) => Some(x.expr.clone()),
                SimpleAssignTarget::Paren(x) => match &*x.expr {
                    Expr::TsAs(..) | Expr::TsNonNull(..) | Expr::TsTypeAssertion(..) | Expr::TsSatisfies(..) | Expr::TsInstantiation(..) | Expr::Paren(..) | Expr::Ident(..) | Expr::Member(..) => Some(x.expr.clone()),
                    _ => None,
                },
                _ => None,
            };
            let Some(mut inner) = inner else { break };
            // peel expression-level wrappers first
            loop {
                let next = match &*inner {
                    Expr::TsAs(x) => Some(x.expr.clone()),
                    Expr::TsNonNull(x) => Some(x.expr.clone()),
                    Expr::TsTypeAssertion(x) => Some(x.expr.clone()),
                    Expr::TsSatisfies(x) => Some(x.expr.clone()),
                    Expr::TsInstantiation(x) => Some(x.expr.clone()),
                    Expr::Paren(x) => Some(x.expr.clone()),
                    _ => None,
                };
                match next {
                    Some(n) => inner = n,
                    None => break,
                }
            }
            match *inner {
                Expr::Ident(i) => {
                    *t = SimpleAssignTarget::Ident(i.into());
                }
                Expr::Member(m) => {
                    *t = SimpleAssignTarget::Member(m);
                }
                Expr::SuperProp(m) => {
                    *t = SimpleAssignTarget::SuperProp(m);
                }
                other => {
                    *t = SimpleAssignTarget::Paren(ParenExpr { span: Default::default(), expr: Box::new(other) });
                    break;
                }
            }
            break;
        }
        t.visit_mut_children_with(self);
    }

    fn visit_mut_binding_ident(&mut self, b: &mut BindingIdent) {
        b.type_ann = None;
        b.id.optional = false;
    }
    fn visit_mut_array_pat(&mut self, p: &mut ArrayPat) {
        p.type_ann = None;
        p.optional = false;
        p.visit_mut_children_with(self);
    }
    fn visit_mut_object_pat(&mut self, p: &mut ObjectPat) {
        p.type_ann = None;
        p.optional = false;
        p.visit_mut_children_with(self);
    }
    fn visit_mut_rest_pat(&mut self, p: &mut RestPat) {
        p.type_ann = None;
        p.visit_mut_children_with(self);
    }
    fn visit_mut_function(&mut self, f: &mut Function) {
        f.return_type = None;
        f.type_params = None;
        f.params.retain(|p| match &p.pat {
            Pat::Ident(i) => i.id.sym != "this",
            _ => true,
        });
        f.visit_mut_children_with(self);
    }
    fn visit_mut_arrow_expr(&mut self, a: &mut ArrowExpr) {
        a.return_type = None;
        a.type_params = None;
        a.visit_mut_children_with(self);
    }
    fn visit_mut_call_expr(&mut self, c: &mut CallExpr) {
        c.type_args = None;
        c.visit_mut_children_with(self);
    }
    fn visit_mut_new_expr(&mut self, c: &mut NewExpr) {
        c.type_args = None;
        c.visit_mut_children_with(self);
    }
    fn visit_mut_tagged_tpl(&mut self, c: &mut TaggedTpl) {
        c.type_params = None;
        c.visit_mut_children_with(self);
    }
    fn visit_mut_class(&mut self, c: &mut Class) {
        c.type_params = None;
        c.super_type_params = None;
        c.implements.clear();
        c.is_abstract = false;
        c.visit_mut_children_with(self);
    }
    fn visit_mut_class_prop(&mut self, p: &mut ClassProp) {
        p.type_ann = None;
        p.accessibility = None;
        p.readonly = false;
        p.is_optional = false;
        p.definite = false;
        p.visit_mut_children_with(self);
    }
    fn visit_mut_var_declarator(&mut self, v: &mut VarDeclarator) {
        v.definite = false;
        v.visit_mut_children_with(self);
    }
}

fn ident(s: &str) -> Ident {
    Ident::new(s.into(), DUMMY_SP, SyntaxContext::empty())
}

fn import_call(src: &Str) -> Expr {
    Expr::Call(CallExpr {
        span: DUMMY_SP,
        callee: Callee::Expr(Box::new(Expr::Ident(ident("__import")))),
        args: vec![ExprOrSpread {
            spread: None,
            expr: Box::new(Expr::Lit(Lit::Str(Str {
                span: DUMMY_SP,
                value: src.value.clone(),
                raw: None,
            }))),
        }],
        ..Default::default()
    })
}

fn const_decl(name: Pat, init: Expr) -> ModuleItem {
    ModuleItem::Stmt(Stmt::Decl(Decl::Var(Box::new(VarDecl {
        span: DUMMY_SP,
        kind: VarDeclKind::Const,
        decls: vec![VarDeclarator {
            span: DUMMY_SP,
            name,
            init: Some(Box::new(init)),
            definite: false,
        }],
        ..Default::default()
    }))))
}

fn rewrite_modules(m: &mut Module) {
    let mut hoisted = vec![];
    let mut rest = vec![];
    for item in m.body.drain(..) {
        match item {
            ModuleItem::ModuleDecl(ModuleDecl::Import(imp)) => {
                let mut props = vec![];
                for s in &imp.specifiers {
                    match s {
                        ImportSpecifier::Named(n) => {
                            let key = match &n.imported {
                                Some(ModuleExportName::Ident(i)) => {
                                    PropName::Ident(IdentName::new(i.sym.clone(), DUMMY_SP))
                                }
                                Some(ModuleExportName::Str(s)) => PropName::Str(s.clone()),
                                None => PropName::Ident(IdentName::new(
                                    n.local.sym.clone(),
                                    DUMMY_SP,
                                )),
                            };
                            props.push(ObjectPatProp::KeyValue(KeyValuePatProp {
                                key,
                                value: Box::new(Pat::Ident(n.local.clone().into())),
                            }));
                        }
                        ImportSpecifier::Default(d) => {
                            hoisted.push(const_decl(
                                Pat::Ident(d.local.clone().into()),
                                Expr::Member(MemberExpr {
                                    span: DUMMY_SP,
                                    obj: Box::new(import_call(&imp.src)),
                                    prop: MemberProp::Ident(IdentName::new(
                                        "default".into(),
                                        DUMMY_SP,
                                    )),
                                }),
                            ));
                        }
                        ImportSpecifier::Namespace(ns) => {
                            hoisted.push(const_decl(
                                Pat::Ident(ns.local.clone().into()),
                                import_call(&imp.src),
                            ));
                        }
                    }
                }
                if !props.is_empty() {
                    hoisted.push(const_decl(
                        Pat::Object(ObjectPat {
                            span: DUMMY_SP,
                            props,
                            optional: false,
                            type_ann: None,
                        }),
                        import_call(&imp.src),
                    ));
                }
            }
            ModuleItem::ModuleDecl(ModuleDecl::ExportDecl(e)) => {
                rest.push(ModuleItem::Stmt(Stmt::Decl(e.decl)));
            }
            ModuleItem::ModuleDecl(ModuleDecl::ExportDefaultExpr(e)) => {
                rest.push(ModuleItem::Stmt(Stmt::Expr(ExprStmt {
                    span: DUMMY_SP,
                    expr: Box::new(Expr::Assign(AssignExpr {
                        span: DUMMY_SP,
                        op: AssignOp::Assign,
                        left: AssignTarget::Simple(SimpleAssignTarget::Member(MemberExpr {
                            span: DUMMY_SP,
                            obj: Box::new(Expr::Ident(ident("__out"))),
                            prop: MemberProp::Ident(IdentName::new(
                                "__default".into(),
                                DUMMY_SP,
                            )),
                        })),
                        right: e.expr,
                    })),
                })));
            }
            ModuleItem::ModuleDecl(ModuleDecl::ExportDefaultDecl(e)) => match e.decl {
                DefaultDecl::Fn(f) => {
                    if let Some(id) = f.ident.clone() {
                        rest.push(ModuleItem::Stmt(Stmt::Decl(Decl::Fn(FnDecl {
                            ident: id,
                            declare: false,
                            function: f.function,
                        }))));
                    }
                }
                DefaultDecl::Class(c) => {
                    if let Some(id) = c.ident.clone() {
                        rest.push(ModuleItem::Stmt(Stmt::Decl(Decl::Class(ClassDecl {
                            ident: id,
                            declare: false,
                            class: c.class,
                        }))));
                    }
                }
                _ => {}
            },
            ModuleItem::ModuleDecl(ModuleDecl::ExportNamed(..))
            | ModuleItem::ModuleDecl(ModuleDecl::ExportAll(..)) => {}
            other => rest.push(other),
        }
    }
    hoisted.extend(rest);
    m.body = hoisted;
}

pub fn eval_js(mut m: Module, cm: &Lrc<SourceMap>) -> String {
    m.visit_mut_with(&mut TsEraser);
    rewrite_modules(&mut m);
    to_code_default(cm.clone(), None, &m)
}
