//! Fact extractors over the visitor's RAW output AST (no judgement here).

use serde_json::{json, Value};
use std::collections::{BTreeMap, BTreeSet};
use swc_core::{
    common::{Mark, SyntaxContext},
    ecma::{
        ast::*,
        visit::{Visit, VisitWith},
    },
};

#[derive(Default)]
struct Census {
    c: BTreeMap<&'static str, u64>,
}

impl Census {
    fn bump(&mut self, k: &'static str) {
        *self.c.entry(k).or_insert(0) += 1;
    }
}

impl Visit for Census {
    fn visit_jsx_element(&mut self, n: &JSXElement) {
        self.bump("JSXElement");
        n.visit_children_with(self);
    }
    fn visit_jsx_fragment(&mut self, n: &JSXFragment) {
        self.bump("JSXFragment");
        n.visit_children_with(self);
    }
    fn visit_jsx_member_expr(&mut self, n: &JSXMemberExpr) {
        self.bump("JSXMemberExpr");
        n.visit_children_with(self);
    }
    fn visit_jsx_namespaced_name(&mut self, n: &JSXNamespacedName) {
        self.bump("JSXNamespacedName");
        n.visit_children_with(self);
    }
    fn visit_jsx_empty_expr(&mut self, n: &JSXEmptyExpr) {
        self.bump("JSXEmptyExpr");
        n.visit_children_with(self);
    }
    fn visit_jsx_text(&mut self, n: &JSXText) {
        self.bump("JSXText");
        n.visit_children_with(self);
    }
    fn visit_jsx_expr_container(&mut self, n: &JSXExprContainer) {
        self.bump("JSXExprContainer");
        n.visit_children_with(self);
    }
    fn visit_jsx_spread_child(&mut self, n: &JSXSpreadChild) {
        self.bump("JSXSpreadChild");
        n.visit_children_with(self);
    }
    fn visit_jsx_attr(&mut self, n: &JSXAttr) {
        self.bump("JSXAttr");
        n.visit_children_with(self);
    }
    fn visit_jsx_opening_element(&mut self, n: &JSXOpeningElement) {
        self.bump("JSXOpeningElement");
        n.visit_children_with(self);
    }
    fn visit_ident(&mut self, n: &Ident) {
        if n.sym.is_empty() {
            self.bump("EmptyIdent");
        }
    }
}

/// Counts of JSX node kinds anywhere in the AST (+ identifiers with an empty name, informational).
pub fn census(m: &Module) -> Value {
    let mut c = Census::default();
    m.visit_with(&mut c);
    let jsx: u64 = c
        .c
        .iter()
        .filter(|(k, _)| **k != "EmptyIdent")
        .map(|(_, v)| *v)
        .sum();
    json!({ "jsx": jsx, "kinds": c.c })
}

struct Free {
    mark: Mark,
    names: BTreeSet<String>,
}

impl Visit for Free {
    fn visit_ident(&mut self, n: &Ident) {
        if n.ctxt != SyntaxContext::empty() && n.ctxt.has_mark(self.mark) {
            self.names.insert(n.sym.to_string());
        }
    }
    fn visit_jsx_element_name(&mut self, n: &JSXElementName) {
        // intrinsic (lower-case) tag names are not references
        if let JSXElementName::Ident(i) = n {
            if i.sym.as_bytes().first().map(|c| c.is_ascii_lowercase()).unwrap_or(false) {
                return;
            }
        }
        n.visit_children_with(self);
    }
}

/// Names of identifiers that carry the unresolved mark (free variables; includes type-position names).
pub fn free_idents(m: &Module, unresolved_mark: Mark) -> Vec<String> {
    let mut f = Free {
        mark: unresolved_mark,
        names: Default::default(),
    };
    m.visit_with(&mut f);
    f.names.into_iter().collect()
}

#[derive(Default)]
struct Gen {
    total: BTreeMap<(String, u32), u64>,
    bindings: BTreeMap<(String, u32), (u64, &'static str)>,
}

impl Gen {
    fn bind(&mut self, i: &Ident, kind: &'static str) {
        if i.span.is_dummy() {
            let e = self
                .bindings
                .entry((i.sym.to_string(), i.ctxt.as_u32()))
                .or_insert((0, kind));
            e.0 += 1;
        }
    }
}

impl Visit for Gen {
    fn visit_ident(&mut self, n: &Ident) {
        *self
            .total
            .entry((n.sym.to_string(), n.ctxt.as_u32()))
            .or_insert(0) += 1;
    }
    fn visit_binding_ident(&mut self, n: &BindingIdent) {
        self.bind(&n.id, "pat");
        n.visit_children_with(self);
    }
    fn visit_import_named_specifier(&mut self, n: &ImportNamedSpecifier) {
        self.bind(&n.local, "import");
        n.visit_children_with(self);
    }
    fn visit_import_default_specifier(&mut self, n: &ImportDefaultSpecifier) {
        self.bind(&n.local, "import");
        n.visit_children_with(self);
    }
    fn visit_import_star_as_specifier(&mut self, n: &ImportStarAsSpecifier) {
        self.bind(&n.local, "import");
        n.visit_children_with(self);
    }
    fn visit_fn_decl(&mut self, n: &FnDecl) {
        self.bind(&n.ident, "fn");
        n.visit_children_with(self);
    }
}

/// Every binding whose identifier has a generated (dummy) span, with the number of *other*
/// occurrences of the same (name, syntax context) in the module.
pub fn generated_bindings(m: &Module) -> Value {
    let mut g = Gen::default();
    m.visit_with(&mut g);
    Value::Array(
        g.bindings
            .iter()
            .map(|((name, ctxt), (n, kind))| {
                let total = g.total.get(&(name.clone(), *ctxt)).copied().unwrap_or(0);
                json!({"name": name, "ctxt": ctxt, "kind": kind, "decls": n, "refs": total.saturating_sub(*n)})
            })
            .collect(),
    )
}
