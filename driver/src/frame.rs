//! C09 "erase and compare": everything in the output that is *not* a lowering of JSX, a generated
//! declaration, or a resolveType augmentation of vue's defineComponent must be the input, in order.
//!
//! generated-vs-original is decided by spans: nodes the visitor creates carry DUMMY_SP (or the
//! reserved dummy_with_cmt range), parsed nodes a span inside the source file.

use serde_json::{json, Value};
use swc_core::{
    common::{sync::Lrc, EqIgnoreSpan, SourceMap, Spanned, SyntaxContext, DUMMY_SP},
    ecma::{
        ast::*,
        codegen::to_code_default,
        visit::{VisitMut, VisitMutWith},
    },
};

fn hole() -> Expr {
    Expr::Ident(Ident::new("__HOLE__".into(), DUMMY_SP, SyntaxContext::empty()))
}

struct InEraser;
impl VisitMut for InEraser {
    fn visit_mut_expr(&mut self, e: &mut Expr) {
        match e {
            Expr::JSXElement(..) | Expr::JSXFragment(..) => *e = hole(),
            _ => e.visit_mut_children_with(self),
        }
    }
}

struct OutEraser {
    /// syntax context of `defineComponent` imported by name from 'vue' (re-derived from the input)
    vue_dc: Option<SyntaxContext>,
    resolve_type: bool,
}

fn is_gen_decl(d: &Decl) -> bool {
    match d {
        Decl::Var(v) => v.span.is_dummy(),
        Decl::Fn(f) => f.function.span.is_dummy() && f.ident.span.is_dummy(),
        _ => false,
    }
}

fn is_gen_stmt(s: &Stmt) -> bool {
    match s {
        Stmt::Decl(d) => is_gen_decl(d),
        _ => false,
    }
}

fn is_gen_item(i: &ModuleItem) -> bool {
    match i {
        ModuleItem::Stmt(s) => is_gen_stmt(s),
        ModuleItem::ModuleDecl(ModuleDecl::Import(i)) => i.span.is_dummy(),
        _ => false,
    }
}

fn gen_key(p: &PropOrSpread) -> bool {
    if let PropOrSpread::Prop(p) = p {
        if let Prop::KeyValue(kv) = &**p {
            if let PropName::Ident(i) = &kv.key {
                return i.span.is_dummy()
                    && (i.sym == "props" || i.sym == "emits" || i.sym == "name");
            }
        }
    }
    false
}

impl OutEraser {
    fn strip_define_component(&self, call: &mut CallExpr) {
        let is_vue = match (&call.callee, self.vue_dc) {
            (Callee::Expr(c), Some(ctxt)) => match &**c {
                Expr::Ident(i) => i.sym == "defineComponent" && i.ctxt == ctxt,
                _ => false,
            },
            _ => false,
        };
        if !is_vue || !self.resolve_type {
            return;
        }
        let mut remove = vec![];
        for (idx, arg) in call.args.iter_mut().enumerate() {
            if arg.spread.is_some() {
                continue;
            }
            let replace = if let Expr::Object(obj) = &mut *arg.expr {
                obj.props.retain(|p| !gen_key(p));
                if obj.span.is_dummy() {
                    match obj.props.as_slice() {
                        [] => {
                            remove.push(idx);
                            None
                        }
                        [PropOrSpread::Spread(s)] if s.dot3_token.is_dummy() => {
                            Some((*s.expr).clone())
                        }
                        _ => None,
                    }
                } else {
                    None
                }
            } else {
                None
            };
            if let Some(e) = replace {
                arg.expr = Box::new(e);
            }
        }
        for idx in remove.into_iter().rev() {
            call.args.remove(idx);
        }
    }
}

impl VisitMut for OutEraser {
    fn visit_mut_expr(&mut self, e: &mut Expr) {
        if e.span().is_dummy() {
            *e = hole();
            return;
        }
        e.visit_mut_children_with(self);
    }

    fn visit_mut_call_expr(&mut self, c: &mut CallExpr) {
        self.strip_define_component(c);
        c.visit_mut_children_with(self);
    }

    fn visit_mut_module_items(&mut self, items: &mut Vec<ModuleItem>) {
        items.retain(|i| !is_gen_item(i));
        items.visit_mut_children_with(self);
    }

    fn visit_mut_stmts(&mut self, stmts: &mut Vec<Stmt>) {
        stmts.retain(|s| !is_gen_stmt(s));
        stmts.visit_mut_children_with(self);
    }

    fn visit_mut_arrow_expr(&mut self, a: &mut ArrowExpr) {
        // generated block `{ const…; let…; return e }` folds back to expression body `e`
        let folded = if let BlockStmtOrExpr::BlockStmt(b) = &*a.body {
            if b.span.is_dummy() {
                let rest: Vec<&Stmt> = b.stmts.iter().filter(|s| !is_gen_stmt(s)).collect();
                // "converted to a block only to hold declarations": a block without any generated
                // declaration is not folded back (the arrow then counts as rewritten)
                let holds_declarations = rest.len() < b.stmts.len();
                match rest.as_slice() {
                    [Stmt::Return(ReturnStmt {
                        arg: Some(arg),
                        span,
                    })] if span.is_dummy() && holds_declarations => Some(arg.clone()),
                    _ => None,
                }
            } else {
                None
            }
        } else {
            None
        };
        if let Some(arg) = folded {
            a.body = Box::new(BlockStmtOrExpr::Expr(arg));
        }
        a.visit_mut_children_with(self);
    }
}

fn vue_define_component_ctxt(m: &Module) -> Option<SyntaxContext> {
    let mut found = None;
    for item in &m.body {
        if let ModuleItem::ModuleDecl(ModuleDecl::Import(i)) = item {
            if i.src.value != "vue" || i.type_only {
                continue;
            }
            for s in &i.specifiers {
                if let ImportSpecifier::Named(n) = s {
                    if n.imported.is_none() && n.local.sym == "defineComponent" {
                        found = Some(n.local.ctxt);
                    }
                }
            }
        }
    }
    found
}

pub fn check(input: &Module, output: &Module, resolve_type: bool, cm: &Lrc<SourceMap>) -> Value {
    let mut a = input.clone();
    a.visit_mut_with(&mut InEraser);
    let mut b = output.clone();
    b.visit_mut_with(&mut OutEraser {
        vue_dc: vue_define_component_ctxt(input),
        resolve_type,
    });
    let ok = a.eq_ignore_span(&b);
    if ok {
        json!({"ok": true, "items_in": a.body.len(), "items_out": b.body.len()})
    } else {
        let pa = to_code_default(cm.clone(), None, &a);
        let pb = to_code_default(cm.clone(), None, &b);
        json!({"ok": false, "in": pa, "out": pb})
    }
}
