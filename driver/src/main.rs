//! vjdriver — JSONL server binding the verification framework to the *real* transform in /repo.
//!
//! One request per line on stdin, one response per line on stdout (flushed per line, in order).
//! Every request runs the real pipeline on the given source text:
//!   parse → resolver → [k extra marks] → VueJsxTransformVisitor (or the real plugin entry) →
//!   RAW facts → hygiene → fixer → codegen → PRINTED facts → eval-ready rendering.
//! Nothing here judges a property; the explorers in /verif/explore do.

mod evalgen;
mod facts;
mod frame;

use serde::Deserialize;
use serde_json::{json, Value};
use std::{
    io::{BufRead, Write},
    panic::{catch_unwind, AssertUnwindSafe},
    sync::{Arc, Mutex},
};
use swc_core::{
    common::{
        comments::SingleThreadedComments,
        errors::{DiagnosticBuilder, Emitter, Handler, Level, HANDLER},
        sync::Lrc,
        FileName, Globals, Mark, SourceMap, GLOBALS,
    },
    ecma::{
        ast::*,
        codegen::to_code_default,
        parser::{lexer::Lexer, EsSyntax, Parser, StringInput, Syntax, TsSyntax},
        transforms::base::{fixer::fixer, hygiene::hygiene, resolver},
        visit::{visit_mut_pass, VisitMutWith},
    },
};
use swc_vue_jsx_visitor::{Options, VueJsxTransformVisitor};

#[derive(Deserialize, Default)]
struct Req {
    id: u64,
    src: String,
    #[serde(default)]
    ts: bool,
    /// JSON text of the plugin configuration; absent = no configuration at all.
    #[serde(default)]
    opts: Option<String>,
    /// "visitor" (default; as tests/fixture.rs does) or "plugin" (the real plugin entry source).
    #[serde(default)]
    entry: Option<String>,
    /// number of extra `Mark::new()` calls between resolver and visitor ("host mark offset").
    #[serde(default)]
    marks: u32,
    /// facts wanted beyond the always-on ones: eval, free, gen, frame, second, state, input_print
    #[serde(default)]
    want: Vec<String>,
}

struct Collect(Arc<Mutex<Vec<(String, String)>>>);
impl Emitter for Collect {
    fn emit(&mut self, db: &DiagnosticBuilder<'_>) {
        let level = match db.level {
            Level::Bug | Level::Fatal | Level::PhaseFatal | Level::Error => "error",
            Level::Warning => "warning",
            _ => "note",
        };
        self.0
            .lock()
            .unwrap()
            .push((level.to_string(), db.message()));
    }
}

fn syntax(ts: bool, jsx: bool) -> Syntax {
    if ts {
        Syntax::Typescript(TsSyntax {
            tsx: jsx,
            ..Default::default()
        })
    } else {
        Syntax::Es(EsSyntax {
            jsx,
            ..Default::default()
        })
    }
}

fn parse(
    cm: &Lrc<SourceMap>,
    src: &str,
    syn: Syntax,
    comments: Option<&SingleThreadedComments>,
) -> Result<Module, String> {
    let fm = cm.new_source_file(Lrc::new(FileName::Anon), src.to_string());
    let lexer = Lexer::new(
        syn,
        Default::default(),
        StringInput::from(&*fm),
        comments.map(|c| c as _),
    );
    let mut p = Parser::new_from(lexer);
    let m = p
        .parse_module()
        .map_err(|e| format!("{:?}", e.kind()))?;
    let errs = p.take_errors();
    if let Some(e) = errs.into_iter().next() {
        return Err(format!("{:?}", e.kind()));
    }
    Ok(m)
}

fn panic_msg(e: Box<dyn std::any::Any + Send>) -> String {
    if let Some(s) = e.downcast_ref::<&str>() {
        s.to_string()
    } else if let Some(s) = e.downcast_ref::<String>() {
        s.clone()
    } else {
        "non-string panic payload".to_string()
    }
}

enum Entry {
    Visitor,
    Plugin,
    /// no transform at all (identity: parse → resolver → hygiene → fixer → codegen)
    None,
}

/// Runs the real transform on a resolved module. Err = (stage, message) of a panic / refusal.
fn run_transform(
    module: Module,
    entry: &Entry,
    opts: &Option<String>,
    unresolved_mark: Mark,
    comments: &SingleThreadedComments,
) -> Result<Module, (String, String)> {
    match entry {
        Entry::None => Ok(module),
        Entry::Visitor => {
            let options: Options = match opts {
                Some(json) => serde_json::from_str(json)
                    .map_err(|e| ("config".to_string(), e.to_string()))?,
                None => Options::default(),
            };
            let r = catch_unwind(AssertUnwindSafe(|| {
                let program = Program::Module(module);
                let program = program.apply(visit_mut_pass(VueJsxTransformVisitor::new(
                    options,
                    unresolved_mark,
                    Some(comments.clone()),
                )));
                match program {
                    Program::Module(m) => m,
                    _ => unreachable!(),
                }
            }));
            r.map_err(|e| ("visitor".to_string(), panic_msg(e)))
        }
        Entry::Plugin => {
            let metadata = plugin_native::TransformPluginProgramMetadata {
                comments: Some(comments.clone()),
                unresolved_mark,
                plugin_config: opts.clone(),
            };
            let r = catch_unwind(AssertUnwindSafe(|| {
                let program = plugin_native::entry::vue_jsx(Program::Module(module), metadata);
                match program {
                    Program::Module(m) => m,
                    _ => unreachable!(),
                }
            }));
            r.map_err(|e| {
                let msg = panic_msg(e);
                if msg.contains("failed to parse config") {
                    ("config".to_string(), msg)
                } else {
                    ("visitor".to_string(), msg)
                }
            })
        }
    }
}

fn finish(module: Module, cm: &Lrc<SourceMap>, comments: &SingleThreadedComments) -> (Module, String) {
    let program = Program::Module(module)
        .apply(hygiene())
        .apply(fixer(Some(comments as _)));
    let printed = to_code_default(cm.clone(), Some(comments as _), &program);
    match program {
        Program::Module(m) => (m, printed),
        _ => unreachable!(),
    }
}

/// Full pipeline on text in a fresh Globals; returns printed text or an error description.
fn pipeline_text(src: &str, ts: bool, entry: &Entry, opts: &Option<String>) -> Result<String, String> {
    GLOBALS.set(&Globals::new(), || {
        let cm: Lrc<SourceMap> = Default::default();
        let comments = SingleThreadedComments::default();
        let mut module = parse(&cm, src, syntax(ts, true), Some(&comments))?;
        let unresolved_mark = Mark::new();
        let top_level_mark = Mark::new();
        module.visit_mut_with(&mut resolver(unresolved_mark, top_level_mark, ts));
        let module = run_transform(module, entry, opts, unresolved_mark, &comments)
            .map_err(|(s, m)| format!("{s}: {m}"))?;
        let r = catch_unwind(AssertUnwindSafe(|| finish(module, &cm, &comments).1));
        r.map_err(|e| format!("finish: {}", panic_msg(e)))
    })
}

fn handle(req: &Req) -> Value {
    let diags: Arc<Mutex<Vec<(String, String)>>> = Default::default();
    let handler = Handler::with_emitter(true, false, Box::new(Collect(diags.clone())));
    let want = |k: &str| req.want.iter().any(|w| w == k);
    let entry = match req.entry.as_deref() {
        Some("plugin") => Entry::Plugin,
        Some("none") => Entry::None,
        _ => Entry::Visitor,
    };

    let mut out = json!({ "id": req.id });
    let o = out.as_object_mut().unwrap();

    GLOBALS.set(&Globals::new(), || {
        HANDLER.set(&handler, || {
            let cm: Lrc<SourceMap> = Default::default();
            let comments = SingleThreadedComments::default();
            let mut module = match parse(&cm, &req.src, syntax(req.ts, true), Some(&comments)) {
                Ok(m) => m,
                Err(e) => {
                    o.insert("parse_error".into(), json!(e));
                    return;
                }
            };
            let unresolved_mark = Mark::new();
            let top_level_mark = Mark::new();
            module.visit_mut_with(&mut resolver(unresolved_mark, top_level_mark, req.ts));
            for _ in 0..req.marks {
                let _ = Mark::new();
            }
            let input = module.clone();

            if want("free") {
                o.insert(
                    "free_in".into(),
                    json!(facts::free_idents(&input, unresolved_mark)),
                );
            }
            if want("ident_in") {
                // the identity pipeline (no transform at all) on the same source text
                o.insert(
                    "ident_in".into(),
                    match pipeline_text(&req.src, req.ts, &Entry::None, &None) {
                        Ok(s) => json!(s),
                        Err(e) => json!({ "error": e }),
                    },
                );
            }
            if want("input_print") {
                let r = catch_unwind(AssertUnwindSafe(|| {
                    to_code_default(cm.clone(), None, &input)
                }));
                if let Ok(s) = r {
                    o.insert("input_print".into(), json!(s));
                }
            }

            if want("state") {
                // auxiliary run: the visitor's own per-item traversal without the end-of-module drain
                let options: Option<Options> = match &req.opts {
                    Some(json) => serde_json::from_str(json).ok(),
                    None => Some(Options::default()),
                };
                if let Some(options) = options {
                    let mut aux = input.clone();
                    let r = catch_unwind(AssertUnwindSafe(|| {
                        let mut v = VueJsxTransformVisitor::new(
                            options,
                            unresolved_mark,
                            Some(comments.clone()),
                        );
                        aux.body.visit_mut_with(&mut v);
                        v.verif_state()
                    }));
                    if let Ok(s) = r {
                        o.insert("state".into(), json!(s));
                    }
                }
            }

            let module = match run_transform(module, &entry, &req.opts, unresolved_mark, &comments) {
                Ok(m) => m,
                Err((stage, msg)) => {
                    if stage == "config" {
                        o.insert("opts_error".into(), json!(msg));
                    } else {
                        o.insert("panic".into(), json!({"stage": stage, "msg": msg}));
                    }
                    return;
                }
            };

            // RAW facts
            o.insert("census".into(), facts::census(&module));
            if want("gen") {
                o.insert("gen".into(), facts::generated_bindings(&module));
            }
            if want("frame") {
                let resolve_type = req
                    .opts
                    .as_ref()
                    .and_then(|j| serde_json::from_str::<Value>(j).ok())
                    .and_then(|v| v.get("resolveType").and_then(|b| b.as_bool()))
                    .unwrap_or(false);
                let r = catch_unwind(AssertUnwindSafe(|| {
                    frame::check(&input, &module, resolve_type, &cm)
                }));
                match r {
                    Ok(v) => {
                        o.insert("frame".into(), v);
                    }
                    Err(e) => {
                        o.insert("frame".into(), json!({"ok": false, "error": panic_msg(e)}));
                    }
                }
            }

            // PRINTED
            let r = catch_unwind(AssertUnwindSafe(|| finish(module, &cm, &comments)));
            let (final_ast, printed) = match r {
                Ok(x) => x,
                Err(e) => {
                    o.insert("panic".into(), json!({"stage": "finish", "msg": panic_msg(e)}));
                    return;
                }
            };
            o.insert("printed".into(), json!(printed));

            // re-parse with JSX disabled
            let cm2: Lrc<SourceMap> = Default::default();
            match parse(&cm2, &printed, syntax(req.ts, false), None) {
                Ok(_) => {
                    o.insert("reparse_ok".into(), json!(true));
                }
                Err(e) => {
                    o.insert("reparse_ok".into(), json!(false));
                    o.insert("reparse_err".into(), json!(e));
                }
            }

            if want("free") {
                let v = GLOBALS.set(&Globals::new(), || {
                    let cm3: Lrc<SourceMap> = Default::default();
                    match parse(&cm3, &printed, syntax(req.ts, true), None) {
                        Ok(mut m) => {
                            let um = Mark::new();
                            let tm = Mark::new();
                            m.visit_mut_with(&mut resolver(um, tm, req.ts));
                            Some(facts::free_idents(&m, um))
                        }
                        Err(_) => None,
                    }
                });
                o.insert("free_out".into(), json!(v));
            }

            if want("eval") {
                let r = catch_unwind(AssertUnwindSafe(|| evalgen::eval_js(final_ast.clone(), &cm)));
                match r {
                    Ok(s) => {
                        o.insert("eval_js".into(), json!(s));
                    }
                    Err(e) => {
                        o.insert("eval_error".into(), json!(panic_msg(e)));
                    }
                }
            }

            if want("second") {
                // the pass applied to its own printed output, vs. the identity pipeline on it
                let second = pipeline_text(&printed, req.ts, &entry, &req.opts);
                let ident = pipeline_text(&printed, req.ts, &Entry::None, &None);
                o.insert(
                    "printed2".into(),
                    match second {
                        Ok(s) => json!(s),
                        Err(e) => json!({ "error": e }),
                    },
                );
                o.insert(
                    "printed_id".into(),
                    match ident {
                        Ok(s) => json!(s),
                        Err(e) => json!({ "error": e }),
                    },
                );
            }
        })
    });

    let d = diags.lock().unwrap();
    o.insert(
        "diags".into(),
        Value::Array(
            d.iter()
                .map(|(l, m)| json!({"level": l, "msg": m}))
                .collect(),
        ),
    );
    out
}

fn serve() {
    // silence the default panic hook: panics are data here
    std::panic::set_hook(Box::new(|_| {}));
    let stdin = std::io::stdin();
    let stdout = std::io::stdout();
    let mut out = stdout.lock();
    for line in stdin.lock().lines() {
        let line = match line {
            Ok(l) => l,
            Err(_) => break,
        };
        if line.trim().is_empty() {
            continue;
        }
        let resp = match serde_json::from_str::<Req>(&line) {
            Ok(req) => {
                let id = req.id;
                match catch_unwind(AssertUnwindSafe(|| handle(&req))) {
                    Ok(v) => v,
                    Err(e) => json!({"id": id, "panic": {"stage": "driver", "msg": panic_msg(e)}, "diags": []}),
                }
            }
            Err(e) => json!({"id": 0, "bad_request": e.to_string()}),
        };
        let _ = serde_json::to_writer(&mut out, &resp);
        let _ = out.write_all(b"\n");
        let _ = out.flush();
    }
}

fn main() {
    // fixed 8 MiB stack so that "deep nesting" verdicts do not depend on the caller's ulimit
    let t = std::thread::Builder::new()
        .stack_size(8 * 1024 * 1024)
        .spawn(serve)
        .unwrap();
    let _ = t.join();
}
