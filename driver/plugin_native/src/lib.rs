//! The real plugin entry source file of /repo, compiled natively as-is.
#[path = "/repo/plugin/src/lib.rs"]
pub mod entry;

pub use swc_core::plugin::proxies::TransformPluginProgramMetadata;
