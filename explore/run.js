'use strict';
// entry: node explore/run.js <Cxx> [--tier quick|thorough] [--replay file] [--shards n]
const engine = require('./lib/engine');

async function main() {
  const a = process.argv.slice(2);
  if (a[0] === '--worker') {
    await engine.workerMain(a[1], a[2], +a[3], +a[4], +a[5]);
    return;
  }
  const id = a[0];
  let tier = process.env.VERIF_TIER || 'quick';
  let replay = null, shards = 0;
  for (let i = 1; i < a.length; i++) {
    if (a[i] === '--tier') tier = a[++i];
    else if (a[i] === '--replay') replay = a[++i];
    else if (a[i] === '--shards') shards = +a[++i];
  }
  if (!/^C\d\d$/.test(id || '')) { console.error('usage: run.js Cxx [--tier quick|thorough] [--replay file]'); process.exit(2); }
  if (tier !== 'quick' && tier !== 'thorough') tier = 'quick';
  const code = replay ? await engine.replayMain(id, replay) : await engine.parentMain(id, tier, { shards });
  process.exit(code);
}
main().catch((e) => { console.error('ENGINE-ERROR', e && e.stack || e); process.exit(2); });
