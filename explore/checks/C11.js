'use strict';
// C11 — embedded expressions are evaluated once, in source order, slot content lazily.
const { sequences } = require('../lib/spaces');
const { withModule, errStr } = require('../lib/evalmod');
const { stable, Names } = require('../lib/canon');

// every non-trivial expression is an instrumented leaf t("label") (or a logging member read lo.<label>)
// attribute events: src, leaves in source order, kind
const A = {
  a:    { src: 'a={t("a")}', leaves: ['a'], kind: 'plain' },
  b:    { src: 'b={lo.b}', leaves: ['lo.b'], kind: 'plain' },
  tpl:  { src: 'e={`x${t("e")}`}', leaves: ['e'], kind: 'plain' },
  c1:   { src: 'class={t("c1")}', leaves: ['c1'], kind: 'merge:class' },
  c2:   { src: 'class={[t("c2")]}', leaves: ['c2'], kind: 'merge:class' },
  s1:   { src: 'style={t("s1")}', leaves: ['s1'], kind: 'merge:style' },
  k1:   { src: 'onClick={t("k1")}', leaves: ['k1'], kind: 'merge:onClick' },
  k2:   { src: 'onClick={t("k2")}', leaves: ['k2'], kind: 'merge:onClick' },
  s2:   { src: 'style={[t("s2")]}', leaves: ['s2'], kind: 'merge:style' },
  // all-lower-case listener names (DOM style) are listeners too
  l1:   { src: 'onclick={t("l1")}', leaves: ['l1'], kind: 'merge:onclick' },
  l2:   { src: 'onclick={t("l2")}', leaves: ['l2'], kind: 'merge:onclick' },
  key:  { src: 'key={t("key")}', leaves: ['key'], kind: 'plain' },
  ref:  { src: 'ref={t("ref")}', leaves: ['ref'], kind: 'plain' },
  sp1:  { src: '{...t("sp1")}', leaves: ['sp1'], kind: 'spread' },
  sp2:  { src: '{...{ z: t("sp2") }}', leaves: ['sp2'], kind: 'spreadlit' },
  sp3:  { src: '{...{ "id": t("sp3"), "class": t("sp3c") }}', leaves: ['sp3', 'sp3c'], kind: 'spreadlit' },
  id:   { src: 'id={t("id")}', leaves: ['id'], kind: 'plain' },
  on:   { src: 'on={t("on")}', leaves: ['on'], kind: 'on' },
  jsx:  { src: 'j={<i id={t("j")} />}', leaves: ['j'], kind: 'plain' },
  dir:  { src: 'v-foo={t("dv")}', leaves: ['dv'], kind: 'dir' },
  dir2: { src: 'v-bar={[t("dv2"), t("da2")]}', leaves: ['dv2', 'da2'], kind: 'dir' },
  html: { src: 'v-html={t("html")}', leaves: ['html'], kind: 'plain' },
  model:{ src: 'v-model={t("mo").p}', leaves: ['mo'], kind: 'model' },
  models: { src: 'v-models={[[t("ms").p, "mx"]]}', leaves: ['ms'], kind: 'model' },
  modelArg: { src: 'v-model={[mv, t("ma")]}', leaves: ['ma'], kind: 'modelArg' },
};
const A_KEYS = Object.keys(A);
// child events
const C = {
  x1: { src: '{t("x1")}', leaves: ['x1'] },
  x2: { src: '{lo.x2}', leaves: ['lo.x2'] },
  text: { src: 'txt', leaves: [] },
  el: { src: '<b id={t("n1")}>{t("n2")}</b>', leaves: ['n1', 'n2'] },
  elDir: { src: '<p v-show={t("nd")} id={t("n3")} />', leaves: ['n3'], dirLeaves: ['nd'] },
  spread: { src: '{...t("xs")}', leaves: ['xs'] },
  comp: { src: '<B a={t("n4")}>{t("n5")}z</B>', leaves: ['n4'], lazyLeaves: ['n5'] },
  cond: { src: '{t("q") && <i id={t("n6")} />}', leaves: ['q', 'n6'] },
  // expressions that are neither an identifier nor a call, under parentheses / type-only wrappers: evaluated once, where they stand
  seq: { src: '{(t("q1"), t("q2"))}', leaves: ['q1', 'q2'] },
  memberParen: { src: '{(lo.x3)}', leaves: ['lo.x3'] },
  ternary: { src: '{t("c3") ? t("c4") : 0}', leaves: ['c3', 'c4'] },
  memberNN: { src: '{lo.x4!}', leaves: ['lo.x4'], ts: true },
  seqAs: { src: '{(t("q3"), lo.x5) as any}', leaves: ['q3', 'lo.x5'], ts: true },
};
const C_KEYS = Object.keys(C);
const HOSTS = { div: { tag: 'div', component: false }, Comp: { tag: 'Comp', component: true }, frag: { tag: '', component: false }, Unbound: { tag: 'Unb', component: true }, ForeignFragment: { tag: 'Fg', component: true, imports: "import { Fragment as Fg } from 'lib';\n" },
  // a member tag is a component whatever its last segment is called
  MemberNative: { tag: 'nsx.div', component: true, imports: "const nsx = { div: { __c: 'nsx.div' } };\n" } };

function mkEnv() {
  const trace = [];
  const values = {
    sp1: { id: 'sid', class: 'spc' }, on: { click: () => {} }, xs: ['xs0', 'xs1'], mo: { p: 'mop' }, ms: { p: 'msp' }, ma: 'marg', q: true,
  };
  const t = (label) => { trace.push(label); return label in values ? values[label] : 'v:' + label; };
  const lo = {};
  for (const l of ['b', 'x2', 'x3', 'x4', 'x5']) Object.defineProperty(lo, l, { get() { trace.push('lo.' + l); return 'v:lo.' + l; } });
  return { bound: { t, lo, Comp: { __c: 'Comp' }, B: { __c: 'B' } }, mv0: 'mv0', trace, names: new Names(), modules: { lib: { Fragment: { __c: 'lib.Fragment' } } } };
}
const PRELUDE = 'const { t, lo, Comp, B } = __env.bound;\nlet mv = __env.mv0;\n';

function render(c) {
  const h = HOSTS[c.host];
  const attrs = c.at.map((k) => A[k].src).join(' ');
  const kids = c.ch.map((k) => C[k].src).join('');
  const J = h.tag === '' ? `<>${kids}</>` : kids ? `<${h.tag}${attrs ? ' ' + attrs : ''}>${kids}</${h.tag}>` : `<${h.tag}${attrs ? ' ' + attrs : ''} />`;
  return (h.imports || '') + PRELUDE + `__out.mk = () => (${J});\n`;
}
function requests(c) { return [{ src: render(c), ts: c.ch.some((k) => C[k].ts), want: ['eval'], opts: JSON.stringify(c.o) }]; }

// ---- reference model
function expectedAttrOrder(c) {
  const ordered = [];
  let group = [];
  const flush = () => {
    if (c.o.mergeProps) {
      // a repeated class/style/listener is evaluated at the position of its first occurrence (within one merged object)
      const out = [];
      for (const e of group) {
        const m = /^merge:(.*)/.exec(A[e].kind);
        if (m) {
          let last = -1;
          out.forEach((x, i) => { if (A[x].kind === A[e].kind) last = i; });
          if (last >= 0) { out.splice(last + 1, 0, e); continue; }
        }
        out.push(e);
      }
      ordered.push(...out);
    } else ordered.push(...group);
    group = [];
  };
  for (const k of c.at) {
    const kind = A[k].kind;
    if (kind === 'dir') continue;
    if (kind === 'spread' || kind === 'spreadlit' || (kind === 'on' && c.o.transformOn)) { flush(); ordered.push(k); } else group.push(k);
  }
  flush();
  return ordered;
}

function judge(c, resps) {
  const r = resps[0];
  if (r.parse_error) return { engineError: 'generated case does not parse: ' + r.parse_error };
  // a well-formed input of this space for which the transform panics or kills its process has no output that could satisfy the property
  if (r.panic || r.died) return { viol: [{ clause: 'transform-failed', diff: r.panic ? 'panic' : 'process-died', msg: r.panic ? `panic in ${r.panic.stage}: ${r.panic.msg}` : 'the transform killed its process' }], obs: 'transform-failed' };
  if (r.hang || !r.eval_js) return { skip: true };
  const h = HOSTS[c.host];
  const env = mkEnv();
  const viol = [];
  let obs;
  withModule(r.eval_js, env, (out, rec, loadError) => {
    if (loadError) { viol.push({ clause: 'load', diff: 'exception:' + loadError.name, msg: errStr(loadError) }); return; }
    let v;
    try { v = out.mk(); } catch (e) { viol.push({ clause: 'create', diff: 'exception:' + e.name, msg: errStr(e) }); return; }
    const creation = env.trace.slice();
    // expected multiset at creation
    const dirLeaves = [];
    const count = {};
    const bump = (l, n = 1) => { count[l] = (count[l] || 0) + n; };
    const orderLeaves = [];
    for (const k of expectedAttrOrder(c)) {
      const a = A[k];
      if (a.kind === 'modelArg') { bump('ma', 2); continue; } // once per generated key: value/directive-arg + listener key (no modifiers here)
      for (const l of a.leaves) { bump(l); orderLeaves.push(l); }
    }
    for (const k of c.at) if (A[k].kind === 'dir') for (const l of A[k].leaves) { bump(l); dirLeaves.push(l); }
    const soleDynamic = h.component && c.ch.length === 1 && c.ch[0] === 'x1' && c.o.enableObjectSlots; // single call child: decided at run time
    const childLeaves = [];
    const childLazy = [];
    for (const k of c.ch) {
      for (const l of C[k].leaves) childLeaves.push(l);
      for (const l of (C[k].dirLeaves || [])) { childLeaves.push(l); }
      for (const l of (C[k].lazyLeaves || [])) childLazy.push(l);
    }
    if (!h.component) { for (const l of childLeaves) bump(l); }
    else if (soleDynamic) bump('x1');
    // ---- exactly-once at creation
    const seen = {};
    for (const l of creation) seen[l] = (seen[l] || 0) + 1;
    for (const l of new Set([...Object.keys(count), ...Object.keys(seen)])) {
      if ((count[l] || 0) !== (seen[l] || 0)) viol.push({ clause: 'once-at-creation', diff: `count:${(seen[l] || 0) > (count[l] || 0) ? 'more' : 'fewer'}`, msg: `leaf ${l} evaluated ${seen[l] || 0} time(s) at vnode creation, expected ${count[l] || 0}`, expected: count, observed: seen });
    }
    // ---- source order (directive leaves and the computed model argument are position-free)
    // on an element the v-model value lives in the directive binding (position-free); on a component it is a prop
    const free = new Set([...dirLeaves, 'ma', 'nd', ...(h.component ? [] : ['mo', 'ms'])]);
    const got = creation.filter((l) => !free.has(l));
    const exp = orderLeaves.filter((l) => !free.has(l)).concat(h.component ? (soleDynamic ? ['x1'] : []) : childLeaves.filter((l) => !free.has(l)));
    const dedupe = (xs) => xs.filter((l, i) => xs.indexOf(l) === i);
    if (stable(dedupe(got)) !== stable(dedupe(exp)) && !viol.length) viol.push({ clause: 'source-order', diff: 'order:different', msg: 'leaves not evaluated in source order at creation', expected: exp, observed: got });
    // ---- laziness of component children: each slot invocation evaluates the child leaves once, in order
    if (h.component && c.ch.length && v && v.children && typeof v.children === 'object' && typeof v.children.default === 'function') {
      for (let round = 1; round <= 2; round++) {
        env.trace.length = 0;
        try { v.children.default(); } catch (e) { viol.push({ clause: 'slot-invoke', diff: 'exception:' + e.name, msg: errStr(e) }); break; }
        const gotI = env.trace.filter((l) => l !== 'nd');
        const expI = soleDynamic ? [] : childLeaves.filter((l) => l !== 'nd');
        if (stable(gotI) !== stable(expI)) { viol.push({ clause: 'lazy-children', diff: gotI.length > expI.length ? 'invoke:more' : gotI.length < expI.length ? 'invoke:fewer' : 'invoke:order', msg: `slot invocation ${round} evaluated ${JSON.stringify(gotI)}, expected ${JSON.stringify(expI)}`, expected: expI, observed: gotI }); break; }
      }
    } else if (h.component && c.ch.length && !soleDynamic && childLeaves.length) {
      viol.push({ clause: 'lazy-children', diff: 'slots:no-default-function', msg: 'component children were not delivered as a default slot function' });
    }
    obs = stable([creation]);
  });
  const uniq = new Map();
  for (const v of viol) if (!uniq.has(v.clause + v.diff)) uniq.set(v.clause + v.diff, v);
  return { viol: [...uniq.values()], obs, clauses: ['once-at-creation', 'source-order', 'lazy-children'] };
}

const OPTS = [];
for (const mergeProps of [true, false]) for (const transformOn of [false, true]) for (const enableObjectSlots of [true, false]) for (const optimize of [false, true]) OPTS.push({ mergeProps, transformOn, enableObjectSlots, optimize });

function okAttrs(idx) {
  const ks = idx.map((i) => A_KEYS[i]);
  if (ks.filter((k) => A[k].kind === 'model' || A[k].kind === 'modelArg').length > 1) return false;
  return true;
}

function spaces(tier) {
  const thorough = tier === 'thorough';
  const aLen = 3, cLen = thorough ? 3 : 2;
  return [{
    name: 'E:observable-leaves',
    bounds: { hosts: Object.keys(HOSTS), attr_events: A_KEYS, max_attrs: aLen, child_events: C_KEYS, max_children: cLen, options: 'mergeProps × transformOn × enableObjectSlots × optimize (16)' + (thorough ? '' : '; at 3 attributes only vectors that differ from the default in ≤1 bit') },
    *gen() {
      for (const host of Object.keys(HOSTS)) {
        const aSeqs = host === 'frag' ? [[]] : [...sequences(A_KEYS.length, aLen, { distinct: true })].filter(okAttrs);
        for (const as of aSeqs) {
          const maxC = as.length >= 2 ? (thorough ? 1 : (as.length === 3 ? 0 : 1)) : cLen;
          for (const cs of sequences(C_KEYS.length, maxC, { ok: (idx, pos) => !(pos > 0 && C_KEYS[idx[pos]] === 'text' && C_KEYS[idx[pos - 1]] === 'text') })) {
            for (const o of OPTS) {
              const dev = (!o.mergeProps) + (o.transformOn ? 1 : 0) + (!o.enableObjectSlots) + (o.optimize ? 1 : 0);
              if (!thorough && as.length + cs.length >= 3 && dev > 1) continue;
              if (o.transformOn && !as.some((i) => A_KEYS[i] === 'on')) continue; // option cannot matter
              if (!o.enableObjectSlots && !(HOSTS[host].component && cs.length === 1)) continue;
              yield { host, at: as.map((i) => A_KEYS[i]), ch: cs.map((i) => C_KEYS[i]), o };
            }
          }
        }
      }
    },
  }];
}

function* shrink(c) {
  for (let i = 0; i < c.at.length; i++) yield Object.assign({}, c, { at: c.at.slice(0, i).concat(c.at.slice(i + 1)) });
  for (let i = 0; i < c.ch.length; i++) {
    const ch = c.ch.slice(0, i).concat(c.ch.slice(i + 1));
    if (!ch.some((k, j) => j > 0 && k === 'text' && ch[j - 1] === 'text')) yield Object.assign({}, c, { ch });
  }
  if (c.host === 'Unbound') yield Object.assign({}, c, { host: 'Comp' });
  if (c.host === 'frag') yield Object.assign({}, c, { host: 'div' });
  const def = OPTS[0];
  for (const k of Object.keys(def)) if (c.o[k] !== def[k]) yield Object.assign({}, c, { o: Object.assign({}, c.o, { [k]: def[k] }) });
}

function caseKey(c) {
  const o = Object.keys(c.o).filter((k) => c.o[k] !== OPTS[0][k]).map((k) => `${k}=${c.o[k]}`).join(',');
  return `${c.host}[${c.at.join(',')}](${c.ch.join(',')}){${o}}`;
}

module.exports = {
  id: 'C11',
  level: 'model_checking',
  rule: 'BFS over attribute-event sequences (distinct, ≤3) × child-event sequences on element / component / fragment hosts × option vectors, where every non-trivial embedded expression is an instrumented leaf; each state is transformed by the real visitor and executed, and the recorded evaluation trace is compared with the reference: each leaf exactly once at creation (computed v-model argument once per generated key), attribute/spread leaves in source order (repeated class/style/listener at its first occurrence) before child leaves, directive leaves position-free; component children not at creation but once per slot invocation (two invocations), except the single call child under enableObjectSlots. Distinct = distinct creation traces.',
  assumptions: ['mock Vue runtime', 'node evaluator', 'reference trace model written from the property statement'],
  spaces, requests, judge, shrink, caseKey,
  depth: (c) => c.at.length + c.ch.length,
};
