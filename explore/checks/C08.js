'use strict';
// C08 — the transform is total and deterministic.
const G = require('../lib/gspace');
const { hash } = require('../lib/canon');
const { product, sequences } = require('../lib/spaces');

// ---- (b) reference graphs of types on ≤3 names
const { SYM, SYM_X } = require('../lib/tsyms');
const HS = require('../lib/hspace');
const HG = require('../lib/hgen');
const NAMES = ['A', 'B', 'C'];
// definition menu: how name N is declared in terms of a target M (possibly N itself)
const DEFS = {
  lit:    (N) => `type ${N} = { n${N}: string };`,
  alias:  (N, M) => `type ${N} = ${M};`,
  union:  (N, M) => `type ${N} = ${M} | { u${N}: number };`,
  inter:  (N, M) => `type ${N} = ${M} & { i${N}?: number };`,
  paren:  (N, M) => `type ${N} = (${M});`,
  index:  (N, M) => `type ${N} = ${M}['k'];`,
  indexN: (N, M) => `type ${N} = ${M}[number];`,
  index2: (N, M) => `type ${N} = ${M}['k']['k'];`,
  indexParen: (N, M) => `type ${N} = (${M})['k'];`,
  indexInline: (N, M) => `type ${N} = { k: ${M}; j: { k: ${M} }['k'] }['k' | 'j'];`,
  imem2:  (N, M) => `interface ${N} { k: ${M}['k']['k'] }`,
  indexNN: (N, M) => `type ${N} = Array<${M}[number]>[number];`,
  pick:   (N, M) => `type ${N} = Pick<${M}, 'k'>;`,
  omit:   (N, M) => `type ${N} = Omit<${M}, 'k'>;`,
  partial:(N, M) => `type ${N} = Partial<${M}>;`,
  array:  (N, M) => `type ${N} = ${M}[];`,
  tuple:  (N, M) => `type ${N} = [${M}, string];`,
  iext:   (N, M) => `interface ${N} extends ${M} { k: string }`,
  imem:   (N, M) => `interface ${N} { k: ${M}; f${N}: number }`,
  ikey:   (N, M) => `type ${N} = { k: ${M}['k'] };`,
  fnty:   (N, M) => `type ${N} = (e: ${M}) => void;`,
  keyof:  (N, M) => `type ${N} = Pick<{ k: 1 }, ${M}>;`,
  // generic declarations (the parameter has a default, so a bare reference stays well-formed); references carry type arguments
  generic: (N, M) => `type ${N}<T = string> = { g${N}: T; k?: T } & Partial<${M}<T>>;`,
  genericAlias: (N, M) => `type ${N}<T = string> = ${M}<T[]>;`,
  genericIface: (N, M) => `interface ${N}<T = string> extends ${M}<T> { k: T }`,
  lits:   (N) => `type ${N} = 'a${N}' | 'b${N}' | 'c${N}';`,
  litsRef:(N, M) => `type ${N} = 'x${N}' | ${M} | 'y${N}';`,
};
const DEF_CORE = ['alias', 'union', 'index', 'pick', 'iext', 'imem', 'partial', 'generic'];

function* graphs(n, kinds) {
  const names = NAMES.slice(0, n);
  const menu = [{ k: 'lit' }, { k: 'lits' }];
  for (const k of kinds) for (const m of names) menu.push({ k, m });
  for (const combo of product(names.map(() => menu))) yield combo.map((d, i) => ({ n: names[i], k: d.k, m: d.m }));
}
function graphSrc(g, use) {
  const decls = g.map((d) => DEFS[d.k](d.n, d.m)).join('\n');
  const call = use === 'emitsFn' ? 'defineComponent((props: {}, ctx: SetupContext<(e: A) => void>) => () => null)' : use === 'pickKeys' ? 'defineComponent((props: Pick<{ aA: 1; bA: 2; cA: 3; xA: 4; aB: 5; bB: 6; cB: 7; xB: 8; k: 9 }, A>) => () => null)' : use === 'props' ? 'defineComponent((props: A) => () => null)' : use === 'emits' ? 'defineComponent((props: {}, ctx: SetupContext<A>) => () => null)' : 'defineComponent((props: { p: A }) => () => null)';
  return `import { defineComponent, SetupContext } from 'vue';\n${decls}\nexport const X = ${call};\n`;
}
const graphKey = (g) => g.map((d) => (d.k === 'lit' || d.k === 'lits' ? `${d.n}=${d.k}` : `${d.n}=${d.k}(${d.m})`)).join(' ');

// ---- (c) nesting
function nestSrc(kind, depth) {
  let open = '', close = '';
  for (let i = 0; i < depth; i++) {
    if (kind === 'direct') { open += '<div>'; close = '</div>' + close; }
    else if (kind === 'container') { open += '<div>{'; close = '}</div>' + close; }
    else if (kind === 'component') { open += '<Comp>'; close = '</Comp>' + close; }
    else if (kind === 'attr') { open += '<div p={'; close = '} />' + close; }
  }
  const inner = kind === 'attr' ? 'x' : kind === 'container' ? 'x' : 'a';
  return `const { x, Comp } = __env.bound;\n__out.mk = () => ${open}${inner}${close};\n`;
}
const DEPTHS = [1, 2, 3, 4, 8, 16, 32, 64, 96, 128, 192, 256];

// ---- (x) cross-request interference: the same source under two option sets, one after the other in one process
const X_OPTS = { none: {}, px: { customElementPatterns: ['^x-'] }, py: { customElementPatterns: ['^y-'] }, pxOpt: { customElementPatterns: ['^x-'], optimize: true }, prag: { pragma: 'h' }, ton: { transformOn: true }, noeos: { enableObjectSlots: false } };
const X_SHAPES = {
  hostChild: (t) => `const a = <${t}><span>hi</span></${t}>;`,
  hostAttrs: (t) => `const a = <${t} id={x} on={{ click: h }} {...s} />;`,
  nested: (t) => `const a = <div><${t}>{x}</${t}><${t} /></div>;`,
  slotIdent: (t) => `const a = <Comp><${t}>{x}</${t}></Comp>;`,
};
// ---- (y) cross-request: two *different* modules one after the other in one process (nothing of the first may survive)
const Y_MODS = {
  tsAliasString: { ts: true, o: { resolveType: true }, src: "import { defineComponent } from 'vue';\ntype P = { a: string };\ntype K = 'a';\nexport const C = defineComponent((props: P) => () => null);" },
  tsAliasNumber: { ts: true, o: { resolveType: true }, src: "import { defineComponent } from 'vue';\ntype P = { b?: number; c: P['b'] };\ninterface K { k: boolean }\nexport const C = defineComponent((props: P & K) => () => null);" },
  tsCircular: { ts: true, o: { resolveType: true }, src: "import { defineComponent } from 'vue';\ntype P = Q; type Q = P;\nexport const C = defineComponent((props: { p: P }) => () => null);" },
  tsNoImport: { ts: true, o: { resolveType: true }, src: "function defineComponent(a: any) { return a; }\ntype P = { z: string };\nexport const C = defineComponent((props: P) => () => null);" },
  pragmaComment: { o: {}, src: '/* @jsx h */\nconst a = <div><b/></div>;' },
  noPragma: { o: {}, src: 'const a = <div><b/></div>;' },
  fragAlias: { o: {}, src: "import { Fragment as F } from 'vue';\nconst a = <F>{x}</F>;" },
  fragAliasIsComp: { o: {}, src: 'const F = Comp;\nconst a = <F>{x}</F>;' },
  slotTemps: { o: { optimize: true }, src: 'const a = <Comp>{f()}</Comp>;\nconst b = <Comp>{g()}</Comp>;' },
  slotTempsOne: { o: { optimize: true }, src: 'const b = <Comp>{g()}</Comp>;\nlet q = 1;\nq = <Comp>{q}</Comp>;' },
  typeCheckbox: { o: {}, src: 'const a = <input type="checkbox" />;' },
  modelNoType: { o: {}, src: 'let v;\nconst a = <input v-model={v} />;' },
  transformOnA: { o: { transformOn: true }, src: 'const a = <div on={{ click: h }} />;' },
  transformOnB: { o: { transformOn: true, mergeProps: false }, src: 'const a = <div id="a" on={{ click: h }} {...s} />;' },
};
function xSrc(c) { return `const { x, s, h, Comp } = __env.bound;\n${X_SHAPES[c.shape](`x-t${c.i}`)}\n`; }

function requests(c) {
  if (c.sp === 'Y') return [c.a, c.b].map((k) => ({ src: Y_MODS[k].src + '\n', ts: !!Y_MODS[k].ts, opts: JSON.stringify(Y_MODS[k].o) }));
  if (c.sp === 'X') return [{ src: xSrc(c), opts: JSON.stringify(X_OPTS[c.first]) }, { src: xSrc(c), opts: JSON.stringify(X_OPTS[c.second]) }];
  let base;
  if (c.sp === 'G') base = { src: G.render(c), ts: !!c.ts, opts: JSON.stringify(c.o || {}) };
  else if (c.sp === 'S') { const t = c.s.map((i) => (c.x ? SYM_X : SYM)[i][1]).join(''); base = { src: `const { x, y, Comp } = __env.bound;\nconst a = <div>${t}</div>;\nconst b = <div>{x}${t}{y}</div>;\nconst d = <Comp>${t}<i/></Comp>;\n${!c.x && c.s.some((i) => SYM[i][0] === 'DQ') ? '' : `const e = <p title="${t}" v-foo="${t}" />;\n`}`, opts: '{}' }; }
  else if (c.sp === 'H') base = { src: c.crlf ? HS.renderHistory(c.items, !!c.ts).replace(/\n/g, '\r\n') : HS.renderHistory(c.items, !!c.ts), ts: !!c.ts, opts: JSON.stringify(c.ts ? { resolveType: true, optimize: !!c.opt } : { optimize: !!c.opt }) };
  else if (c.sp === 'T') base = { src: graphSrc(c.g, c.use), ts: true, opts: JSON.stringify({ resolveType: true }) };
  else base = { src: nestSrc(c.kind, c.depth), opts: JSON.stringify({ optimize: true }) };
  return [base, Object.assign({}, base), Object.assign({}, base, { marks: 1 }), Object.assign({}, base, { marks: 7 })];
}

function detOf(r) {
  if (r.died) return 'DIED';
  if (r.hang) return 'HANG';
  return hash(JSON.stringify([r.parse_error || null, r.opts_error || null, r.panic ? [r.panic.stage, r.panic.msg] : null, r.printed || null, r.diags || []]));
}

function judge(c, resps) {
  if (c.sp === 'X' || c.sp === 'Y') {
    // result of the *second* request (after another option set was used on the same source in this process);
    // the engine's second pass re-runs that request first in a fresh process and compares
    const v = [];
    for (const x of resps) if (x.panic || x.died || x.hang) v.push({ clause: 'no-panic', diff: 'panic', msg: JSON.stringify(x.panic || 'died') });
    return { viol: v, obs: detOf(resps[1]), det: detOf(resps[1]), clauses: ['deterministic-across-requests'] };
  }
  const r = resps[0];
  if (r.parse_error) return { skip: true };
  if (r.opts_error) return { engineError: 'option corner rejected: ' + r.opts_error };
  const viol = [];
  for (const x of resps) {
    if (x.died) { viol.push({ clause: 'no-crash', diff: 'process:died', msg: 'the transform killed its process (stack overflow / abort)', observed: x.exit }); break; }
    if (x.hang) { viol.push({ clause: 'terminates', diff: 'timeout', msg: `no answer within ${x.timeout_ms} ms` }); break; }
    if (x.panic) { viol.push({ clause: 'no-panic', diff: `panic:${x.panic.stage}:${String(x.panic.msg).replace(/[0-9]+/g, 'N').slice(0, 60)}`, msg: `panic in ${x.panic.stage}: ${x.panic.msg}` }); break; }
  }
  const dets = resps.map(detOf);
  if (!viol.length) {
    if (dets[1] !== dets[0]) viol.push({ clause: 'deterministic-same-process', diff: 'output:different', msg: 'the same request answered differently twice in one process', expected: dets[0], observed: dets[1] });
    if (dets[2] !== dets[0] || dets[3] !== dets[0]) viol.push({ clause: 'deterministic-mark-offset', diff: 'output:different', msg: 'the output depends on how many hygiene marks the host allocated before the plugin ran', expected: dets[0], observed: [dets[2], dets[3]] });
  }
  if (!viol.length && c.expectDiag && !(r.diags || []).some((d) => d.level === 'error')) viol.push({ clause: 'reports-diagnostic', diff: 'diag:missing', msg: 'malformed directive usage / unresolvable type was not reported as an error', observed: r.printed });
  return { viol, obs: dets[0], det: dets[0], extraEvals: 0, clauses: ['no-panic', 'no-crash', 'terminates', 'deterministic'] };
}

function gExpectDiag(c) {
  // malformed directive usage: v-model / v-html / v-text without a JSX expression, v-models without a two-dimensional array
  return c.attrs.some((a) => (['v-model', 'v-model:a', 'v-model_m', 'v-html', 'v-text'].includes(a.n) && a.v === 'absent') || (a.n === 'v-models' && ['absent', 'str', 'strEmpty', 'x', 'obj', 'fn', 'num', 'tplStr', 'el', 'frag', 'elNested'].includes(a.v)));
}

function spaces(tier) {
  const thorough = tier === 'thorough';
  return [
    { name: 'G:grammar', bounds: { note: 'the whole C07 grammar space; every directive takes every attribute-value kind', runs_per_case: 'same process ×2, host mark offset 0/1/7, fresh process in reversed order' }, *gen() { for (const c of G.cases(tier)) yield Object.assign({ sp: 'G', expectDiag: gExpectDiag(c) }, c); } },
    {
      name: 'T:type-reference-graphs',
      bounds: { names: thorough ? 3 : '2 (full menu) and 3 (core menu)', definitions: Object.keys(DEFS), uses: ['props annotation', 'SetupContext<E> annotation', 'type of one prop'], cyclic_graphs: 'included' },
      *gen() {
        for (const use of ['emitsFn', 'pickKeys']) for (const n of [1, 2, 3]) for (const g of graphs(n, ['alias', 'litsRef', 'union'])) yield { sp: 'T', g, use };
        for (const use of ['props', 'emits', 'prop']) {
          for (const g of graphs(1, Object.keys(DEFS).filter((k) => k !== 'lit' && k !== 'lits'))) yield { sp: 'T', g, use };
          for (const g of graphs(2, Object.keys(DEFS).filter((k) => k !== 'lit' && k !== 'lits'))) yield { sp: 'T', g, use };
          for (const g of graphs(3, thorough ? Object.keys(DEFS).filter((k) => k !== 'lit' && k !== 'lits') : DEF_CORE)) if (thorough || use !== 'prop') yield { sp: 'T', g, use };
        }
      },
    },
    {
      name: 'S:text-strings',
      bounds: { alphabet: SYM.map((s) => s[0]), max_length: thorough ? 5 : 4, placements: ['only child', 'between containers', 'first child of a component', 'attribute string and directive string (strings without a double quote)'] },
      *gen() { for (const s of sequences(SYM.length, thorough ? 5 : 4)) yield { sp: 'S', s }; for (const s of sequences(SYM_X.length, thorough ? 4 : 3)) yield { sp: 'S', s, x: true }; },
    },
    {
      name: 'H:statement-forms',
      bounds: { items: HG.ALL.length, ts_items: Object.keys(HS.T), note: 'every item of explorer H alone under optimize off/on; every TypeScript item alone and every ordered pair of them with resolveType on (incl. degenerate defineComponent calls)' },
      *gen() {
        for (const it of HG.ALL) for (const opt of [false, true]) yield { sp: 'H', items: [it], opt };
        for (const it of HG.ALL) yield { sp: 'H', items: [it], opt: false, crlf: true }; // the same module with CRLF line endings
        const T = Object.keys(HS.T).map((t) => ({ t }));
        for (const a of T) for (const opt of [false, true]) yield { sp: 'H', items: [a], ts: true, opt };
        for (const a of T) for (const b of T) yield { sp: 'H', items: [a, b], ts: true };
      },
    },
    {
      name: 'X:cross-request-interference',
      bounds: { option_sets: Object.keys(X_OPTS), shapes: Object.keys(X_SHAPES), note: 'request A then request B (same source, different options) in one process; B is re-run first in a fresh process (second pass) and must give the same bytes; every case uses its own tag name' },
      *gen() { let i = 0; for (const shape of Object.keys(X_SHAPES)) for (const first of Object.keys(X_OPTS)) for (const second of Object.keys(X_OPTS)) if (first !== second) yield { sp: 'X', i: i++, shape, first, second }; },
    },
    { name: 'Y:cross-request-modules', bounds: { modules: Object.keys(Y_MODS), note: 'every ordered pair of different modules in one process; the second one is re-run first in a fresh process (second pass) and must give the same bytes' }, *gen() { for (const a of Object.keys(Y_MODS)) for (const b of Object.keys(Y_MODS)) if (a !== b) yield { sp: 'Y', a, b }; } },
    { name: 'N:nesting-depth', bounds: { kinds: ['direct', 'container', 'component', 'attr'], depths: DEPTHS, stack: '8 MiB' }, *gen() { for (const kind of ['direct', 'container', 'component', 'attr']) for (const depth of DEPTHS) yield { sp: 'N', kind, depth }; } },
  ];
}

function* shrink(c) {
  if (c.sp === 'Y') return;
  if (c.sp === 'S') { for (let i = 0; i < c.s.length; i++) yield { sp: 'S', s: c.s.slice(0, i).concat(c.s.slice(i + 1)), x: c.x }; return; }
  if (c.sp === 'H') { if (c.items.length > 1) for (let i = 0; i < c.items.length; i++) yield Object.assign({}, c, { items: c.items.slice(0, i).concat(c.items.slice(i + 1)) }); if (c.opt) yield Object.assign({}, c, { opt: false }); return; }
  if (c.sp === 'X') { if (c.shape !== 'hostChild') yield Object.assign({}, c, { shape: 'hostChild' }); return; }
  if (c.sp === 'G') { for (const x of G.shrink(c)) yield Object.assign({ sp: 'G', expectDiag: gExpectDiag(x) }, x); return; }
  if (c.sp === 'N') { for (const d of DEPTHS) if (d < c.depth) yield Object.assign({}, c, { depth: d }); return; }
  // graphs: drop the last name if nothing refers to it; replace a definition by `lit`
  const g = c.g;
  if (g.length > 1 && !g.slice(0, -1).some((d) => d.m === g[g.length - 1].n)) yield Object.assign({}, c, { g: g.slice(0, -1) });
  for (let i = 0; i < g.length; i++) if (g[i].k !== 'lit' && g[i].k !== 'lits') yield Object.assign({}, c, { g: g.slice(0, i).concat([{ n: g[i].n, k: 'lit' }], g.slice(i + 1)) });
  for (let i = 0; i < g.length; i++) if (g[i].k !== 'lit' && g[i].k !== 'lits' && g[i].k !== 'alias') yield Object.assign({}, c, { g: g.slice(0, i).concat([{ n: g[i].n, k: 'alias', m: g[i].m }], g.slice(i + 1)) });
  if (c.use !== 'props') yield Object.assign({}, c, { use: 'props' });
}

module.exports = {
  id: 'C08',
  level: 'model_checking',
  rule: 'exhaustive enumeration of (G) the unusual-JSX grammar with every directive taking every attribute-value kind, (T) every reference graph of type declarations on ≤3 names over the definition menu (alias, union, intersection, indexed access, Pick/Omit/Partial, array/tuple, interface extends/member, function type) - cyclic graphs included - used as props annotation, SetupContext<E> annotation and as the type of one prop, (N) element nesting depths up to 256 in four nesting styles; each case is run through the real visitor four times in one process (twice plain, host mark offsets 1 and 7) and once more in a fresh process in reversed order: no panic, no process death, answer within the time cap, byte-identical (printed output, diagnostics) in all runs; malformed directive usage must produce an error diagnostic. Distinct = distinct result hashes.',
  assumptions: ['catch_unwind + process exit status + 5 s wall cap decide "returns"', '"does not loop" is decided as "answers within the cap"', 'nesting beyond 256 is not explored'],
  secondPass: true, detOf,
  secondPassRequest: (c) => (c.sp === 'X' || c.sp === 'Y' ? requests(c)[1] : requests(c)[0]),
  spaces, requests, judge, shrink,
  caseKey: (c) => (c.sp === 'Y' ? `Y:${c.a} then ${c.b}` : c.sp === 'S' ? (c.x ? 'SX:' : 'S:') + c.s.map((i) => (c.x ? SYM_X : SYM)[i][0]).join('.') : c.sp === 'H' ? 'H:' + HG.key(c.items) + (c.ts ? ' {tsx resolveType}' : '') + (c.opt ? ' {optimize}' : '') + (c.crlf ? ' {CRLF}' : '') : c.sp === 'X' ? `X:${c.shape}: ${c.first} then ${c.second}` : c.sp === 'G' ? G.key(c) : c.sp === 'N' ? `N:${c.kind}×${c.depth}` : `T:${c.use}: ${graphKey(c.g)}`),
  depth: (c) => (c.sp === 'Y' ? 1 : c.sp === 'S' ? c.s.length : c.sp === 'H' ? c.items.length : c.sp === 'X' ? 1 : c.sp === 'G' ? c.attrs.length + (c.ch !== 'none') : c.sp === 'N' ? DEPTHS.indexOf(c.depth) : c.g.filter((d) => d.k !== 'lit' && d.k !== 'lits').length),
};
