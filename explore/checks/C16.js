'use strict';
// C16 — resolveType derives exactly the declared props and their requiredness.
const R = require('../lib/rspace');
const { stable } = require('../lib/canon');

const UNRESOLVABLE = {
  imported: { pre: "import type { Foreign } from './foreign';", type: 'Foreign' },
  importedValue: { pre: "import { Foreign2 } from './foreign';", type: 'Foreign2' },
  typeofV: { pre: 'const tv = { a: 1 };', type: 'typeof tv' },
  conditional: { pre: 'type Cd<T> = T extends string ? { a: string } : { b: number };', type: 'Cd<string>' },
  conditionalInline: { pre: '', type: "('x' extends string ? { a: string } : { b: number })" },
  mapped: { pre: '', type: "{ [K in 'a' | 'b']: string }" },
  keyword: { pre: '', type: 'string' },
  readonlyUtil: { pre: '', type: 'Readonly<{ a: string }>' },
  recordUtil: { pre: '', type: "Record<'a' | 'b', string>" },
  unknownGlobal: { pre: '', type: 'SomeGlobalProps' },
  // a computed key names the prop by the *value* of the identifier (a string constant, or a symbol that no prop can have)
  computedConst: { pre: "const kk = 'cs';", type: '{ [kk]: string; a?: number }', resolvable: true, map: [{ name: 'cs', optional: false }, { name: 'a', optional: true }] },
  computedConstIface: { pre: "const kk = 'cs';\ninterface CK { [kk]?: string; a: number }", type: 'CK', resolvable: true, map: [{ name: 'cs', optional: true }, { name: 'a', optional: false }] },
  computedSymbol: { pre: 'const sym = Symbol();', type: '{ [sym]: string; a: number }', resolvable: true, map: [{ name: 'a', optional: false }] },
  generic: { pre: 'interface Gn<T> { a: T }', type: 'Gn<string>', resolvable: true, map: [{ name: 'a', optional: false }] },
};

// how the props parameter is written (the annotation may sit on an identifier, a destructuring pattern, or either with a default)
const PARAMS = {
  ident: (T) => `(props: ${T}) => () => null`,
  objPat: (T) => `({ zz1, ...rest }: ${T}) => () => null`,
  objPatEmpty: (T) => `({}: ${T}) => () => null`,
  arrPat: (T) => `([first]: ${T}) => () => null`,
  objPatDefault: (T) => `({ zz1 }: ${T} = {} as any) => () => null`,
  objPatEmptyDefault: (T) => `({}: ${T} = uo) => () => null`,
  arrPatDefault: (T) => `([]: ${T} = [] as any) => () => null`,
  fnExprObjPatDefault: (T) => `function ({ zz1, ...rest }: ${T} = {} as any) { return () => null; }`,
  identDefault: (T) => `(props: ${T} = uo as any) => () => null`,
  fnExprIdent: (T) => `function (props: ${T}) { return () => null; }`,
  fnExprObjPat: (T) => `function setup({ zz1 }: ${T}, ctx: any) { return () => null; }`,
  asyncArrow: (T) => `async (props: ${T}) => () => null`,
  // an options argument that says nothing about props (other derived options already written by the user)
  optsEmits: (T) => `(props: ${T}) => () => null, { emits: ['own'] }`,
  optsName: (T) => `(props: ${T}, ctx: SetupContext<(e: 'x') => void>) => () => null, { 'name': 'Own', inheritAttrs: false }`,
  optsEmitsQuoted: (T) => `function (props: ${T}) { return () => null; }, { "emits": uo.e, name: 'Own' }`,
  withCtx: (T) => `(props: ${T}, { emit }: SetupContext<(e: 'x') => void>) => () => null`,
};
// declarations of one merged interface cannot be split across scopes (the inner one would shadow, not merge)
function declsSplittable(map, path) {
  const enc = R.encode(map.map((i) => R.ENTRY_MENU[i]), path);
  const names = enc.decls.map((d) => /^(?:export )?(?:interface|type) (\w+)/.exec(d)[1]);
  return enc.decls.length >= 2 && new Set(names).size === names.length;
}
function render(c) {
  if (c.sp === 'U') {
    const u = UNRESOLVABLE[c.u];
    return `${R.PRELUDE}${u.pre}\nexport const C = defineComponent((props: ${u.type}) => () => null);\n`;
  }
  const map = c.map.map((i) => R.ENTRY_MENU[i]);
  const enc = R.encode(map, c.path);
  const call = `defineComponent(${PARAMS[c.param || 'ident'](enc.type)})`;
  if (c.scope === 'shadowChain') {
    // a function-local alias shadows an outer type of the same name and reaches that outer type through an outer chain
    const third = Math.ceil(map.length / 3);
    const p1 = map.slice(0, third), p2 = map.slice(third, 2 * third), p3 = map.slice(2 * third);
    return `${R.PRELUDE}type Props = ${R.lit(p3)};\ntype Mid = ${R.lit(p2)} & Props;\nconst make = () => {\n  type Props = ${R.lit(p1)} & Mid;\n  return defineComponent((props: Props) => () => null);\n};\nexport const C = make();\n`;
  }
  if (c.scope === 'shadow' || c.scope === 'shadowArrow' || c.scope === 'shadowFnExpr') {
    // same-named outer declarations with different members; the inner (function-local) ones must win
    const outer = enc.decls.map((d) => {
      const m = /^(?:export )?(interface|type) (\w+)/.exec(d);
      return m[1] === 'interface' ? `interface ${m[2]} { zzz: string }` : `type ${m[2]} = { zzz: string };`;
    });
    const uniq = [...new Set(outer)];
    const inner = enc.decls.map((d) => d.replace(/^export /, ''));
    const body = c.pos === 'before' ? `${inner.join('\n  ')}\n  return ${call};` : `const r = ${call};\n  ${inner.join('\n  ')}\n  return r;`;
    const fn = c.scope === 'shadowArrow' ? `const make = () => {\n  ${body}\n};` : c.scope === 'shadowFnExpr' ? `const make = function () {\n  ${body}\n};` : `function make() {\n  ${body}\n}`;
    return `${R.PRELUDE}${uniq.join('\n')}\n${fn}\nexport const C = make();\n`;
  }
  if (c.scope === 'mixedLast') {
    // the last declaration (the one the annotation names, when there are several) lives in a function body, what it refers to at module level
    const k = Math.max(enc.decls.length - 1, 0);
    const outer = enc.decls.slice(0, k), inner = enc.decls.slice(k).map((d) => d.replace(/^export /, ''));
    return `${R.PRELUDE}${outer.join('\n')}\nfunction make() {\n  ${inner.join('\n  ')}\n  return ${call};\n}\nexport const C = make();\n`;
  }
  const decls = enc.decls.join('\n');
  if (c.scope === 'laterVueImport') return `${R.PRELUDE}import { ref as unusedRef } from 'vue';\nimport type { Slots } from 'vue';\n${decls}\nexport const C = ${call};\n`;
  if (c.scope === 'twice') return `${R.PRELUDE}${decls}\nexport const C0 = ${call};\nexport const C = ${call};\n`;
  return c.pos === 'before' ? `${R.PRELUDE}${decls}\nexport const C = ${call};\n` : `${R.PRELUDE}export const C = ${call};\n${decls}\n`;
}

function requests(c) { return [{ src: render(c), ts: true, want: ['eval'], opts: JSON.stringify({ resolveType: true }) }]; }

function judge(c, resps) {
  const r = resps[0];
  if (r.parse_error) return { engineError: 'generated module does not parse: ' + r.parse_error + ' :: ' + render(c) };
  // a well-formed input of this space for which the transform panics or kills its process has no output that could satisfy the property
  if (r.panic || r.died) return { viol: [{ clause: 'transform-failed', diff: r.panic ? 'panic' : 'process-died', msg: r.panic ? `panic in ${r.panic.stage}: ${r.panic.msg}` : 'the transform killed its process' }], obs: 'transform-failed' };
  if (r.hang || !r.eval_js) return { skip: true };
  const errors = (r.diags || []).filter((d) => d.level === 'error');
  const viol = [];
  if (c.sp === 'U' && !UNRESOLVABLE[c.u].resolvable) {
    if (!errors.length) viol.push({ clause: 'unresolvable-reported', diff: 'diag:missing', msg: `a props type that cannot be resolved (${c.u}) was not reported as an error`, observed: r.printed });
    return { viol, obs: 'U:' + c.u + ':' + errors.length, clauses: ['unresolvable-reported'] };
  }
  const expMap = c.sp === 'U' ? UNRESOLVABLE[c.u].map : c.scope === 'shadowChain' ? c.map.map((i) => R.ENTRY_MENU[i]) : R.encode(c.map.map((i) => R.ENTRY_MENU[i]), c.path).map;
  const exp = {};
  for (const e of expMap) exp[e.name] = { required: e.kind === 'getter' ? true : !e.optional };
  const res = R.run(r.eval_js);
  if (res.load) { viol.push({ clause: 'load', diff: 'exception', msg: res.load }); return { viol, obs: 'load' }; }
  const vueCalls = res.calls.filter((x) => x.who === 'vue');
  // two components using the same declarations: the second one is judged in full, the first must agree with it
  const call = vueCalls[c.scope === 'twice' ? 1 : 0];
  const props = call && call.args[1] && call.args[1].props;
  if (c.scope === 'twice') {
    const norm = (cl) => { const p = cl && cl.args[1] && cl.args[1].props; const o = {}; if (p && typeof p === 'object') for (const k of Object.keys(p)) o[k] = !!(p[k] && p[k].required); return stable(o); };
    if (norm(vueCalls[0]) !== norm(vueCalls[1])) viol.push({ clause: 'keys', diff: 'twice:components-differ', msg: 'two components declared with the same props type got different props', expected: norm(vueCalls[0]), observed: norm(vueCalls[1]) });
  }
  const got = {};
  if (props && typeof props === 'object') for (const k of Object.keys(props)) got[k] = { required: props[k] && props[k].required };
  if (errors.length) viol.push({ clause: 'resolvable-without-error', diff: 'diag:' + errors[0].msg.replace(/[^A-Za-z ]/g, '').slice(0, 40), msg: `a resolvable props type produced the error "${errors[0].msg}"`, expected: exp, observed: got });
  const ek = Object.keys(exp).sort(), gk = Object.keys(got).sort();
  if (stable(ek) !== stable(gk)) {
    const missing = ek.filter((k) => !gk.includes(k)), extra = gk.filter((k) => !ek.includes(k));
    viol.push({ clause: 'keys', diff: `keys:${missing.length ? 'missing' : ''}${extra.length ? 'extra' : ''}`, msg: `declared props differ: missing [${missing}] extra [${extra}]`, expected: exp, observed: got });
  } else {
    for (const k of ek) if (exp[k].required !== got[k].required) { viol.push({ clause: 'required', diff: `required:${exp[k].required ? 'should-be-required' : 'should-be-optional'}`, msg: `prop ${k}: required=${got[k].required}, declared ${exp[k].required ? 'required' : 'optional'}`, expected: exp, observed: got }); break; }
  }
  return { viol, obs: stable(got) + '|' + errors.length, clauses: ['keys', 'required', 'resolvable-without-error'] };
}

function* paths(depth) {
  yield [];
  for (const a of R.ENC_KEYS) {
    yield [a];
    if (depth >= 2) for (const b of R.ENC_KEYS) { yield [a, b]; if (depth >= 3) for (const d of R.ENC_KEYS) yield [a, b, d]; }
  }
}

function spaces(tier) {
  const thorough = tier === 'thorough';
  const allMaps = [...R.maps(thorough ? 4 : 3)].map((m) => m.map((e) => R.ENTRY_MENU.indexOf(e)));
  const coreMaps = allMaps.filter((m) => m.length === 2 || m.length === 3).filter((m, i) => i % 3 === 0);
  return [
    {
      name: 'P:maps×encodings',
      bounds: { entry_menu: R.ENTRY_MENU.map(R.memberSrc), max_entries: thorough ? 4 : 3, operators: R.ENC_KEYS, operator_depth: thorough ? 3 : 2, positions: ['before', 'after'], scopes: ['module', 'shadow (function declaration)', 'shadow in arrow', 'shadow in function expression', 'shadowing chain through outer types', 'two components using the same declarations', 'last declaration in a function body, the others at module level'], parameter_forms: Object.keys(PARAMS) },
      *gen() {
        for (const map of allMaps) for (const path of paths(1)) for (const pos of ['before', 'after']) for (const scope of ['module', 'shadow', 'shadowArrow', 'shadowFnExpr']) yield { sp: 'P', map, path, pos, scope };
        for (const map of allMaps) yield { sp: 'P', map, path: [], pos: 'before', scope: 'shadowChain' };
        for (const param of Object.keys(PARAMS)) if (param !== 'ident') for (const map of allMaps) for (const path of [[], ['iface'], ['alias']]) yield { sp: 'P', map, path, pos: 'before', scope: 'module', param };
        for (const map of allMaps) for (const path of paths(1)) yield { sp: 'P', map, path, pos: 'before', scope: 'twice' };
        for (const map of allMaps) for (const path of [[], ['iface']]) yield { sp: 'P', map, path, pos: 'before', scope: 'laterVueImport' };
        for (const map of allMaps.filter((m) => m.length <= 2).concat(coreMaps.filter((m) => m.length === 3))) for (const path of paths(2)) if (path.length >= 1 && declsSplittable(map, path)) yield { sp: 'P', map, path, pos: 'before', scope: 'mixedLast' };
        for (const map of (thorough ? allMaps : allMaps.filter((m) => m.length <= 2).concat(coreMaps.filter((m) => m.length === 3)))) for (const path of paths(thorough ? 3 : 2)) if (path.length >= 2) for (const pos of (thorough ? ['before', 'after'] : ['before'])) {
          if (thorough && path.length === 3 && map.length !== 2) continue;
          yield { sp: 'P', map, path, pos, scope: 'module' };
        }
      },
    },
    { name: 'U:unresolvable-forms', bounds: { forms: Object.keys(UNRESOLVABLE) }, *gen() { for (const u of Object.keys(UNRESOLVABLE)) yield { sp: 'U', u }; } },
  ];
}

function* shrink(c) {
  if (c.sp !== 'P') return;
  for (let i = 0; i < c.path.length; i++) yield Object.assign({}, c, { path: c.path.slice(0, i).concat(c.path.slice(i + 1)) });
  for (let i = 0; i < c.map.length; i++) yield Object.assign({}, c, { map: c.map.slice(0, i).concat(c.map.slice(i + 1)) });
  if (c.param && c.param !== 'ident') yield Object.assign({}, c, { param: 'ident' });
  if (c.scope !== 'module') yield Object.assign({}, c, { scope: 'module' });
  if (c.pos !== 'before') yield Object.assign({}, c, { pos: 'before' });
  for (let i = 0; i < c.map.length; i++) if (c.map[i] !== 0) yield Object.assign({}, c, { map: c.map.slice(0, i).concat([0], c.map.slice(i + 1)).filter((v, j, a) => a.findIndex((w) => R.ENTRY_MENU[w].name === R.ENTRY_MENU[v].name) === j) });
}

module.exports = {
  id: 'C16',
  level: 'model_checking',
  rule: 'BFS over encodings of an abstract prop map: every map of ≤3 (thorough 4) entries from the entry menu (plain / quoted-hyphenated keys, methods, getters, optional flags) × every operator path up to the depth bound (inline, alias, alias chain, interface, merged interface, extends (single and multiple), intersection, parentheses, exported, Partial, Required, Pick (inline and aliased key union), Omit, indexed access) × declaration before/after the call × module scope / function-local declarations shadowing same-named outer ones; each state is transformed by the real visitor with resolveType on and executed; the props option received by the mock defineComponent must have exactly the map\'s keys (as spelled) with required = not optional, and no error diagnostic; unresolvable forms must produce an error. The abstract map is the reference model. Distinct = distinct (observed props, diagnostics) pairs.',
  assumptions: ['mock defineComponent records its arguments', 'TS eraser of the driver (generated programs of known shape)', 'SWC TypeScript parser'],
  spaces, requests, judge, shrink,
  caseKey: (c) => (c.sp === 'U' ? 'U:' + c.u : `P:{${c.map.map((i) => R.memberSrc(R.ENTRY_MENU[i])).join('; ')}} via ${c.path.join('∘') || 'inline'} @${c.pos}${c.scope !== 'module' ? ' ' + c.scope : ''}${c.param && c.param !== 'ident' ? ' param:' + c.param : ''}`),
  depth: (c) => (c.sp === 'U' ? 1 : c.path.length + c.map.length),
};
