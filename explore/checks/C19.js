'use strict';
// C19 — resolveType derives exactly the declared emitted events.
const R = require('../lib/rspace');
const { stable } = require('../lib/canon');

const NAMES = ['a', 'b', 'update:x', 'c-d', 'constructor'];
const q = (n) => `'${n}'`;
const key = (n) => (/^[a-z]+$/.test(n) ? n : q(n));
const sig = (n, extra) => `(e: ${q(n)}${extra ? ', v: number' : ''}): void`;
const split = (m) => [m.slice(0, Math.ceil(m.length / 2)), m.slice(Math.ceil(m.length / 2))];

// encoders: (names, ctx) -> {type, decls[], local?: decls that must live next to the call}
const ENC = {
  fnType: (ns) => ({ type: `(e: ${ns.map(q).join(' | ')}) => void`, decls: [] }),
  fnUnion: (ns) => ({ type: ns.map((n) => `((e: ${q(n)}) => void)`).join(' | '), decls: [] }),
  callSigLit: (ns) => ({ type: `{ ${ns.map((n, i) => sig(n, i % 2)).join('; ')} }`, decls: [] }),
  callSigDup: (ns) => ({ type: `{ ${ns.concat(ns.slice(0, 1)).map((n, i) => sig(n, i >= ns.length)).join('; ')} }`, decls: [] }),
  iface: (ns, c) => { const n = c.fresh('E'); return { type: n, decls: [`interface ${n} { ${ns.map((x) => sig(x)).join('; ')} }`] }; },
  ifaceExt: (ns, c) => { const n = c.fresh('E'), p = c.fresh('P'); const [x, y] = split(ns); return { type: n, decls: [`interface ${p} { ${x.map((v) => sig(v)).join('; ')} }`, `interface ${n} extends ${p} { ${y.map((v) => sig(v)).join('; ')} }`], parent: 1 }; },
  ifaceExt2: (ns, c) => { const n = c.fresh('E'), p = c.fresh('P'), g = c.fresh('G'); const [x, y] = split(ns); return { type: n, decls: [`interface ${g} { ${x.map((v) => sig(v)).join('; ')} }`, `interface ${p} extends ${g} {}`, `interface ${n} extends ${p} { ${y.map((v) => sig(v)).join('; ')} }`], parent: 2 }; },
  ifaceMerge: (ns, c) => { const n = c.fresh('E'); const [x, y] = split(ns); return { type: n, decls: [`interface ${n} { ${x.map((v) => sig(v)).join('; ')} }`, `interface ${n} { ${y.map((v) => sig(v)).join('; ')} }`] }; },
  propSyntax: (ns) => ({ type: `{ ${ns.map((n, i) => `${key(n)}: [${i % 2 ? 'v: number' : ''}]`).join('; ')} }`, decls: [] }),
  propIface: (ns, c) => { const n = c.fresh('E'); return { type: n, decls: [`interface ${n} { ${ns.map((x) => `${key(x)}: []`).join('; ')} }`] }; },
  methodSyntax: (ns) => ({ type: `{ ${ns.map((n) => `${key(n)}(v: number): void`).join('; ')} }`, decls: [] }),
  litAlias: (ns, c) => { const n = c.fresh('N'); return { type: `(e: ${n}) => void`, decls: [`type ${n} = ${ns.map(q).join(' | ')};`] }; },
  litAlias2: (ns, c) => { const n = c.fresh('N'), m = c.fresh('M'); const [x, y] = split(ns); return { type: `(e: ${n}) => void`, decls: [`type ${m} = ${x.map(q).join(' | ')};`, `type ${n} = ${[m].concat(y.map(q)).join(' | ')};`], parent: 1 }; },
  litAliasInIface: (ns, c) => { const n = c.fresh('N'), e = c.fresh('E'); return { type: e, decls: [`type ${n} = ${ns.map(q).join(' | ')};`, `interface ${e} { (e: ${n}): void }`], parent: 1 }; },
  aliasOf: (ns, c) => { const n = c.fresh('A'); return { type: n, decls: [`type ${n} = { ${ns.map((x) => sig(x)).join('; ')} };`] }; },
  aliasChain: (ns, c) => { const n = c.fresh('A'), m = c.fresh('B'); return { type: m, decls: [`type ${n} = (e: ${ns.map(q).join(' | ')}) => void;`, `type ${m} = ${n};`], parent: 1 }; },
  inter: (ns) => { const [x, y] = split(ns); return { type: `{ ${x.map((v) => sig(v)).join('; ')} } & { ${y.map((v) => sig(v)).join('; ')} }`, decls: [] }; },
  paren: (ns) => ({ type: `((e: ${ns.map(q).join(' | ')}) => void)`, decls: [] }),
  exported: (ns, c) => { const n = c.fresh('X'); return { type: n, decls: [`export interface ${n} { ${ns.map((x) => sig(x)).join('; ')} }`] }; },
  exportedAlias: (ns, c) => { const n = c.fresh('X'); return { type: n, decls: [`export type ${n} = (e: ${ns.map(q).join(' | ')}) => void;`] }; },
};
const ENC_KEYS = Object.keys(ENC);
// the encodings that can spell a type declaring no event
const EMPTY_ENC = ['callSigLit', 'iface', 'ifaceExt', 'ifaceExt2', 'ifaceMerge', 'propSyntax', 'propIface', 'methodSyntax', 'aliasOf', 'inter', 'exported'];
// how the setup function and its second parameter are written
const SETUPS = {
  arrow: (T) => `(props: {}, ctx: SetupContext<${T}>) => () => null`,
  arrowDestructured: (T) => `(props: {}, { emit }: SetupContext<${T}>) => () => null`,
  fnExpr: (T) => `function (props: {}, ctx: SetupContext<${T}>) { return () => null; }`,
  fnExprNamed: (T) => `function setup(props: { q: string }, ctx: SetupContext<${T}>) { return () => null; }`,
  // an options argument that says nothing about emits
  optsProps: (T) => `(props: {}, ctx: SetupContext<${T}>) => () => null, { props: { own: String } }`,
  optsNameProps: (T) => `(props: { q: string }, { emit }: SetupContext<${T}>) => () => null, { name: 'Own', 'props': {} }`,
  fnExprDestructured: (T) => `function (props: {}, { emit, attrs }: SetupContext<${T}>) { return () => null; }`,
  // SetupContext takes a second type argument (the slots)
  twoTypeArgs: (T) => `(props: {}, ctx: SetupContext<${T}, SlotsType<{ default: () => any }>>) => () => null`,
  twoTypeArgsFn: (T) => `function (props: {}, { emit }: SetupContext<${T}, {}>) { return () => null; }`,
  arrowTypedProps: (T) => `(props: { q: string }, ctx: SetupContext<${T}>) => () => null`,
};
const NO_EMITS = {
  untyped: '(props: {}, ctx) => () => null',
  otherType: "(props: {}, ctx: Other<(e: 'a') => void>) => () => null",
  onlyProps: '(props: { q: string }) => () => null',
  contextNoArg: '(props: {}, ctx: SetupContext) => () => null',
};

function encode(c, other) {
  let n = 0;
  const ns = other || c.names.map((i) => NAMES[i]);
  return ENC[c.enc](ns, { fresh: (p) => `${p}${n++}` });
}
const OUTER_NAMES = ['yy', 'zz'];

function render(c) {
  if (c.sp === 'N') return `${R.PRELUDE}type Other<T> = T;\nexport const C = defineComponent(${NO_EMITS[c.form]});\n`;
  const e = encode(c);
  const call = `defineComponent(${SETUPS[c.setup](e.type)})`;
  const strip = (d) => d.replace(/^export /, '');
  if (['local', 'localArrow', 'localFnExpr', 'localMethod', 'localIife'].includes(c.scope)) {
    const body = c.pos === 'before' ? `${e.decls.map(strip).join('\n  ')}\n  return ${call};` : `const r = ${call};\n  ${e.decls.map(strip).join('\n  ')}\n  return r;`;
    const wrap = {
      local: `function make() {\n  ${body}\n}\nexport const C = make();`,
      localArrow: `const make = () => {\n  ${body}\n};\nexport const C = make();`,
      localFnExpr: `const make = function () {\n  ${body}\n};\nexport const C = make();`,
      localMethod: `const holder = { make() {\n  ${body}\n} };\nexport const C = holder.make();`,
      localIife: `export const C = (() => {\n  ${body}\n})();`,
    }[c.scope];
    return `${R.PRELUDE}${wrap}\n`;
  }
  if (c.scope === 'shadowReach') {
    // an inner declaration shadows an outer one of the same name and reaches it through a third, module-level type
    const ns = c.names.map((i) => NAMES[i]);
    const third = Math.max(1, Math.ceil(ns.length / 3));
    const p1 = ns.slice(0, third), p2 = ns.slice(third, 2 * third), p3 = ns.slice(2 * third);
    const sigs = (xs) => `{ ${xs.map((x) => sig(x)).join('; ')} }`;
    return `${R.PRELUDE}type Ev = ${sigs(p3)};\ntype Mid = ${sigs(p2)} & Ev;\nfunction make() {\n  type Ev = ${sigs(p1)} & Mid;\n  return defineComponent(${SETUPS[c.setup]('Ev')});\n}\nexport const C = make();\n`;
  }
  if (c.scope === 'laterVueImport') {
    // further import declarations from 'vue' after the one that names defineComponent
    return `${R.PRELUDE}import { ref as unusedRef } from 'vue';\nimport type { Slots } from 'vue';\n${e.decls.join('\n')}\nexport const C = ${call};\n`;
  }
  if (c.scope === 'twice') {
    // two components of one module use the same declarations
    return `${R.PRELUDE}${e.decls.join('\n')}\nexport const C0 = ${call};\nexport const C = ${call};\n`;
  }
  if (c.scope === 'shadowed' || c.scope === 'shadowedAfter') {
    // same-named declarations at module level describe other events and are used by a component of their own
    const o = encode(c, OUTER_NAMES);
    const outer = `${o.decls.map(strip).join('\n')}\nexport const C0 = defineComponent(${SETUPS[c.setup](o.type)});`;
    const inner = `function make() {\n  ${e.decls.map(strip).join('\n  ')}\n  return ${call};\n}\nexport const C = make();`;
    return `${R.PRELUDE}${c.scope === 'shadowed' ? outer + '\n' + inner : inner + '\n' + outer}\n`;
  }
  if (c.scope === 'mixed') {
    // parent declarations at module level, the rest next to the call inside a function
    const k = e.parent || 0;
    const outer = e.decls.slice(0, k), inner = e.decls.slice(k).map(strip);
    return `${R.PRELUDE}${outer.join('\n')}\nfunction make() {\n  ${inner.join('\n  ')}\n  return ${call};\n}\nexport const C = make();\n`;
  }
  return c.pos === 'before' ? `${R.PRELUDE}${e.decls.join('\n')}\nexport const C = ${call};\n` : `${R.PRELUDE}export const C = ${call};\n${e.decls.join('\n')}\n`;
}
function requests(c) { return [{ src: render(c), ts: true, want: ['eval'], opts: JSON.stringify({ resolveType: true }) }]; }

function judge(c, resps) {
  const r = resps[0];
  if (r.parse_error) return { engineError: 'generated module does not parse: ' + r.parse_error + ' :: ' + render(c) };
  // a well-formed input of this space for which the transform panics or kills its process has no output that could satisfy the property
  if (r.panic || r.died) return { viol: [{ clause: 'transform-failed', diff: r.panic ? 'panic' : 'process-died', msg: r.panic ? `panic in ${r.panic.stage}: ${r.panic.msg}` : 'the transform killed its process' }], obs: 'transform-failed' };
  if (r.hang || !r.eval_js) return { skip: true };
  const res = R.run(r.eval_js);
  if (res.load) return { viol: [{ clause: 'load', diff: 'exception', msg: res.load }], obs: 'load' };
  const vueCalls = res.calls.filter((x) => x.who === 'vue');
  // with two components in the module the judged one is C; the companion C0 is judged below
  const two = ['twice', 'shadowed', 'shadowedAfter'].includes(c.scope);
  const call = two ? vueCalls[c.scope === 'shadowedAfter' ? 0 : 1] : vueCalls[0];
  const opts = call && call.args[1];
  const viol = [];
  const errors = (r.diags || []).filter((d) => d.level === 'error');
  if (two && c.sp === 'E') {
    const other = vueCalls[c.scope === 'shadowedAfter' ? 1 : 0];
    const oe = (c.scope === 'twice' ? [...new Set(c.names.map((i) => NAMES[i]))] : OUTER_NAMES.slice()).sort();
    const og = other && other.args[1] && Array.isArray(other.args[1].emits) ? [...new Set(other.args[1].emits)].sort() : null;
    if (stable(oe) !== stable(og)) viol.push({ clause: 'emits', diff: 'companion:' + (og === null ? 'absent' : 'different'), msg: `the other component of the module got emits ${JSON.stringify(og)}, declared ${JSON.stringify(oe)}`, expected: oe, observed: og });
  }
  if (c.sp === 'N') {
    if (opts && Object.prototype.hasOwnProperty.call(opts, 'emits')) viol.push({ clause: 'no-annotation-no-emits', diff: 'emits:present', msg: 'an emits option was added although the setup function has no SetupContext<E> annotation', observed: opts.emits });
    return { viol, obs: 'N:' + c.form + ':' + stable(opts && opts.emits), clauses: ['no-annotation-no-emits'] };
  }
  const exp = [...new Set(c.names.map((i) => NAMES[i]))].sort();
  const got = opts && Array.isArray(opts.emits) ? [...new Set(opts.emits)].sort() : null;
  if (errors.length) viol.push({ clause: 'resolvable-without-error', diff: 'diag', msg: `a resolvable emits type produced the error "${errors[0].msg}"` });
  if (stable(exp) !== stable(got)) {
    const missing = exp.filter((k) => !(got || []).includes(k)), extra = (got || []).filter((k) => !exp.includes(k));
    viol.push({ clause: 'emits', diff: got === null ? 'emits:absent' : `emits:${missing.length ? 'missing' : ''}${extra.length ? 'extra' : ''}`, msg: `emits ${JSON.stringify(got)} is not the declared event set ${JSON.stringify(exp)}`, expected: exp, observed: got });
  }
  return { viol, obs: stable(got) + '|' + errors.length, clauses: ['emits', 'resolvable-without-error'] };
}

function* nameSets(deep) {
  if (deep) { yield [0, 1, 2, 3]; yield [3, 2, 1, 0]; yield [1, 3, 0, 2]; for (let a = 0; a < NAMES.length; a++) for (let b = 0; b < NAMES.length; b++) for (let d = 0; d < NAMES.length; d++) if (a !== b && b !== d && a !== d && !(a < b && b < d)) yield [a, b, d]; }
  for (let a = 0; a < NAMES.length; a++) { yield [a]; for (let b = 0; b < NAMES.length; b++) if (b !== a) { yield [a, b]; for (let d = 0; d < NAMES.length; d++) if (d !== a && d !== b && a < b && b < d) yield [a, b, d]; } }
}

function spaces(tier) {
  return [
    {
      name: 'E:event-sets×encodings',
      bounds: { names: NAMES, max_names: 3, encodings: ENC_KEYS, setup_forms: Object.keys(SETUPS), positions: ['before', 'after'], scopes: ['module', 'function declaration', 'arrow', 'function expression', 'object method', 'IIFE', 'mixed (parents at module level)'] },
      *gen() {
        for (const names of nameSets(tier === 'thorough')) for (const enc of ENC_KEYS) for (const setup of Object.keys(SETUPS)) for (const scope of ['module', 'local', 'localArrow', 'localFnExpr', 'localMethod', 'localIife', 'mixed', 'twice', 'shadowed', 'shadowedAfter', 'laterVueImport', 'shadowReach']) for (const pos of (['mixed', 'twice', 'shadowed', 'shadowedAfter', 'laterVueImport', 'shadowReach'].includes(scope) ? ['before'] : ['before', 'after'])) {
          if (scope === 'shadowReach' && enc !== 'fnType') continue; // its declarations are fixed, the encoding dimension does not apply
          yield { sp: 'E', names, enc, setup, scope, pos };
        }
      },
    },
    {
      // E declares no event at all: the call still receives an emits option, and it lists nothing
      name: 'Z:empty-event-set',
      bounds: { names: [], encodings: EMPTY_ENC, setup_forms: Object.keys(SETUPS), scopes: ['module', 'local', 'localArrow', 'mixed', 'twice', 'laterVueImport'], positions: ['before', 'after'] },
      *gen() {
        for (const enc of EMPTY_ENC) for (const setup of Object.keys(SETUPS)) for (const scope of ['module', 'local', 'localArrow', 'mixed', 'twice', 'laterVueImport']) for (const pos of (['mixed', 'twice', 'laterVueImport'].includes(scope) ? ['before'] : ['before', 'after'])) yield { sp: 'E', names: [], enc, setup, scope, pos };
      },
    },
    { name: 'N:no-SetupContext-annotation', bounds: { forms: Object.keys(NO_EMITS) }, *gen() { for (const form of Object.keys(NO_EMITS)) yield { sp: 'N', form }; } },
  ];
}

function* shrink(c) {
  if (c.sp !== 'E') return;
  for (let i = 0; i < c.names.length; i++) if (c.names.length > 1) yield Object.assign({}, c, { names: c.names.slice(0, i).concat(c.names.slice(i + 1)) });
  if (c.scope !== 'module') yield Object.assign({}, c, { scope: 'module' });
  if (c.pos !== 'before') yield Object.assign({}, c, { pos: 'before' });
  if (c.setup !== 'arrow') yield Object.assign({}, c, { setup: 'arrow' });
  if (c.enc !== 'fnType') yield Object.assign({}, c, { enc: 'fnType' });
  for (let i = 0; i < c.names.length; i++) if (c.names[i] !== 0 && !c.names.includes(0)) yield Object.assign({}, c, { names: c.names.slice(0, i).concat([0], c.names.slice(i + 1)) });
}

module.exports = {
  id: 'C19',
  level: 'model_checking',
  rule: 'complete product event-name set (≤3 of {a, b, update:x, c-d, constructor}, ordered; and the empty set in every encoding that can spell it) × encoding (function type, union of function types, call-signature literal incl. duplicate names, interface, extends chains, merged interface, property and method syntax, literal-union aliases of 1-2 hops also inside an interface, aliases, intersection, parentheses, exported) × setup form (arrow, destructured context, function expression, typed props) × scope (module, function-local, parents at module level) × declaration before/after the call, plus the forms without a SetupContext<E> annotation; each state is transformed by the real visitor with resolveType on and executed; the emits option received by the mock defineComponent must equal the declared set (no emits key without the annotation), with no error diagnostic. Distinct = distinct (emits, diagnostics).',
  assumptions: ['mock defineComponent records its arguments', 'SWC TypeScript parser; TS eraser of the driver'],
  spaces, requests, judge, shrink,
  caseKey: (c) => (c.sp === 'N' ? 'N:' + c.form : `E:{${c.names.map((i) => NAMES[i]).join(',')}} as ${c.enc} / ${c.setup} @${c.scope}:${c.pos}`),
  depth: (c) => (c.sp === 'N' ? 1 : c.names.length),
};
