'use strict';
// C10 — a JSX expression's lowering does not depend on unrelated code around it (differential:
// every item's canonical value in the composed module vs. the same item transformed alone).
const H = require('../lib/hspace');
const G = require('../lib/hgen');
const { diff, diffClass, stable } = require('../lib/canon');

const OPTS = JSON.stringify({ transformOn: true, optimize: false });
const OPTS2 = JSON.stringify({ transformOn: true, optimize: true, enableObjectSlots: false, mergeProps: false });

const OPTS3 = JSON.stringify({ transformOn: true, optimize: false, pragma: 'hh' });

// ---- RT: component definitions under resolveType next to unrelated imports, types and other components
const R = require('../lib/rspace');
const { canonValue, Names } = require('../lib/canon');
const RT_OPTS = JSON.stringify({ resolveType: true });
const RT_PRE = "import { defineComponent, SetupContext } from 'vue';\n";
const RT = {
  // observed items: what Vue's defineComponent receives as options
  cA: { comp: true, tpl: (i) => `const CA${i} = defineComponent((props: { a: string; b?: number }) => () => null);\n__out.k${i} = CA${i};` },
  cI: { comp: true, tpl: (i) => `interface PI${i} { m: boolean }\nconst CI${i} = defineComponent((props: PI${i}, ctx: SetupContext<{ (e: 'ev'): void }>) => () => null);\n__out.k${i} = CI${i};` },
  cD: { comp: true, tpl: (i) => `const CD${i} = defineComponent((props: { d?: string } = { d: 'z' }) => () => null, { inheritAttrs: false });\n__out.k${i} = CD${i};` },
  cJ: { comp: true, tpl: (i) => `export const CJ${i} = defineComponent((props: { t: string }) => () => <div>{props.t}</div>);\n__out.k${i} = CJ${i};` },
  cX: { comp: true, tpl: (i) => `export default defineComponent((props: { x: [string, number] }, { emit }: SetupContext<{ done: [] }>) => () => null);\n__out.k${i} = 0;`, dflt: true },
  // unrelated statements
  iRef: { once: true, tpl: (i) => `import { ref } from 'vue';` },
  iRefUsed: { tpl: (i) => `import { ref as rr${i}, computed as cc${i} } from 'vue';\nconst cnt${i} = typeof rr${i};` },
  iFragAlias: { tpl: (i) => `import { Fragment as FF${i} } from 'vue';` },
  iSide: { tpl: (i) => `import 'vue';` },
  iNs: { tpl: (i) => `import * as VV${i} from 'vue';` },
  iType: { tpl: (i) => `import type { Ref } from 'vue';` },
  iDefault: { tpl: (i) => `import Vue${i} from 'vue';` },
  iOther: { tpl: (i) => `import { defineComponent as odc${i} } from 'other-lib';\nconst OC${i} = odc${i}((props: { o: string }) => () => null);` },
  iOtherLater: { tpl: (i) => `import { ref as orf${i} } from 'other-lib';` },
  tAlias: { tpl: (i) => `type TA${i} = { zz: number };\ninterface TI${i} { zz: string }` },
  fnScope: { tpl: (i) => `function sc${i}() { interface PI0 { other: symbol } interface PI1 { other: symbol } interface PI2 { other: symbol } type Q = PI0 | PI1 | PI2; return 0; }` },
  stmt: { tpl: (i) => `const q${i} = 1;` },
  jsxStmt: { tpl: (i) => `const j${i} = () => <p>{q}</p>;` },
};
const RT_KEYS = Object.keys(RT);
const rtSrc = (items, idx) => RT_PRE + 'const q = 1;\n' + items.map((k, j) => RT[k].tpl(idx === undefined ? j : idx)).join('\n') + '\n';
function rtRequests(c) {
  const reqs = [{ src: rtSrc(c.rt), ts: true, want: ['eval'], opts: RT_OPTS }];
  c.rt.forEach((k, i) => { if (RT[k].comp) reqs.push({ src: rtSrc([k], i), ts: true, want: ['eval'], opts: RT_OPTS }); });
  return reqs;
}
function rtObserve(evalJs, i, dflt) {
  const env = R.makeEnv();
  env.modules = { 'other-lib': { defineComponent: (...a) => a, ref: () => 0 } };
  const res = R.run(evalJs, env);
  if (res.load) return { load: res.load };
  const names = new Names();
  const calls = res.calls.filter((x) => x.who === 'vue');
  const pick = dflt ? null : res.out['k' + i];
  const args = pick && pick.__defined ? pick.__defined : null;
  return { options: canonValue(args ? args[1] : undefined, { names, flags: false }, []), nargs: args ? args.length : -1, vueCalls: calls.length };
}
function rtJudge(c, resps) {
  for (const r of resps) if (r.parse_error) return { engineError: 'generated module does not parse: ' + r.parse_error };
  const bad = (x) => x.panic || x.died || x.hang || !x.eval_js;
  if (resps.some(bad)) return { viol: [{ clause: 'same-as-alone', diff: 'no-output', msg: 'the transform produced no output for a well-formed module of the space' }], obs: 'none', clauses: ['same-as-alone'] };
  const viol = [], obsAll = [];
  let n = 1;
  c.rt.forEach((k, i) => {
    if (!RT[k].comp) return;
    const alone = resps[n++];
    // a default export is observed through the recorded call (its position among the module's vue calls)
    let e, o;
    if (RT[k].dflt) {
      const envA = R.makeEnv(), envC = R.makeEnv();
      envA.modules = envC.modules = { 'other-lib': { defineComponent: (...a) => a, ref: () => 0 } };
      const ra = R.run(alone.eval_js, envA), rc = R.run(resps[0].eval_js, envC);
      const pos = c.rt.slice(0, i).filter((x) => RT[x].comp).length;
      const cv = (call) => (call ? canonValue(call.args[1], { names: new Names(), flags: false }, []) : 'no-call');
      e = ra.load ? { load: ra.load } : { options: cv(ra.calls.filter((x) => x.who === 'vue')[0]) };
      o = rc.load ? { load: rc.load } : { options: cv(rc.calls.filter((x) => x.who === 'vue')[pos]) };
    } else { e = rtObserve(alone.eval_js, i); o = rtObserve(resps[0].eval_js, i); delete e.vueCalls; delete o.vueCalls; }
    obsAll.push(o);
    const d = diff(e, o);
    if (d) viol.push({ clause: 'same-as-alone', diff: 'options' + diffClass(d), msg: `component item ${i} (${k}) receives different options inside the module than alone, at ${d.path}`, expected: e, observed: o });
  });
  const uniq = new Map();
  for (const v of viol) if (!uniq.has(v.clause + v.diff)) uniq.set(v.clause + v.diff, v);
  return { viol: [...uniq.values()], obs: stable(obsAll), extraEvals: 0, clauses: ['same-as-alone'] };
}
function* rtCases(tier) {
  const comps = RT_KEYS.filter((k) => RT[k].comp), max = tier === 'thorough' ? 4 : 3;
  function* rec(prefix) {
    if (prefix.length && prefix.some((k) => RT[k].comp)) yield { rt: prefix.slice() };
    if (prefix.length >= max) return;
    for (const k of RT_KEYS) { if ((RT[k].dflt || RT[k].once) && prefix.includes(k)) continue; prefix.push(k); yield* rec(prefix); prefix.pop(); }
  }
  yield* rec([]);
}

function requests(c) {
  if (c.rt) return rtRequests(c);
  const opts = c.o3 ? OPTS3 : c.o2 ? OPTS2 : OPTS;
  const reqs = [{ src: H.renderHistory(c.items), want: ['eval'], opts }];
  c.items.forEach((it, i) => reqs.push({ src: H.renderAlone(it, i), want: ['eval'], opts })); // alone, under the index it has in the history
  return reqs;
}

function judge(c, resps) {
  if (c.rt) return rtJudge(c, resps);
  const r = resps[0];
  if (r.parse_error) return { engineError: 'generated history does not parse: ' + r.parse_error };
  for (const a of resps.slice(1)) if (a.parse_error) return { engineError: 'generated item does not parse: ' + a.parse_error };
  const bad = (x) => x.panic || x.died || x.hang || !x.eval_js;
  if (bad(r)) return { skip: true };
  const viol = [];
  const alones = c.items.map((it, i) => (bad(resps[i + 1]) ? null : H.observe(resps[i + 1].eval_js, i + 1, i, !!c.o2)));
  // a statement that cannot even be loaded on its own (C06's business: e.g. a generated const read in its
  // temporal dead zone) stops every module it is concatenated to; that is not a dependence of lowerings
  if (alones.some((a) => a && a.load)) return { skip: true };
  // under the optimizing option vector the update hints are part of what the expression evaluates to
  const composed = H.observe(r.eval_js, c.items.length, undefined, !!c.o2);
  const obsAll = [];
  c.items.forEach((it, i) => {
    const alone = alones[i];
    if (!alone) return;
    // an item that cannot even be loaded/evaluated alone is C06's business; here only *dependence* on the surroundings is judged
    const e = alone.load ? { load: alone.loadName } : alone.values[i];
    const o = composed.load ? { load: composed.loadName } : composed.values[i];
    obsAll.push(o);
    const d = diff(e, o);
    if (d) viol.push({ clause: 'same-as-alone', diff: 'value' + diffClass(d).replace(/^\[\*\]/, '[round]'), msg: `item ${i} (${H.itemKey(it)}) evaluates differently inside the history than alone, at ${d.path}`, expected: e, observed: o });
  });
  const uniq = new Map();
  for (const v of viol) if (!uniq.has(v.clause + v.diff)) uniq.set(v.clause + v.diff, v);
  return { viol: [...uniq.values()], obs: stable(obsAll), extraEvals: 0, clauses: ['same-as-alone'] };
}

module.exports = {
  id: 'C10',
  level: 'model_checking',
  rule: 'explicit-state BFS over module-item histories (item = syntactic context ∘ lowering, distractor, or statement-level form; all items at length 1, focus×focus pairs, core triples; deeper in the thorough tier); every history is transformed by the real visitor and executed, every item has an observation point that is activated twice (slots invoked), and its canonical value must equal the canonical value of the same item transformed and executed alone. Differential oracle, no hand-written expectation. Distinct = distinct canonical observation vectors.',
  assumptions: ['mock Vue runtime', 'node evaluator', 'distractor assignments re-assign the value already held, so composing items cannot change run-time values by itself'],
  prepare: async (tier) => (tier === 'thorough' ? G.skeleton(2, OPTS) : null),
  spaces: (tier, prepared) => G.spaces(tier, (items) => ({ items })).concat([{
    name: 'O2:optimize-on-objectSlots-off-mergeProps-off',
    bounds: { note: 'focus pairs and core triples again under optimize=true, enableObjectSlots=false, mergeProps=false' },
    *gen() { for (const a of G.FOCUS) for (const b of G.CORE.concat(G.STATE_D)) { if (G.onceOk([a, b])) yield { items: [a, b], o2: true }; if (G.onceOk([b, a])) yield { items: [b, a], o2: true }; } for (const a of G.MINI) for (const b of G.MINI) for (const d of G.MINI) if (G.onceOk([a, b, d])) yield { items: [a, b, d], o2: true }; },
  }, {
    name: 'O3:pragma-configured',
    bounds: { note: 'every item next to every focus item, both orders, with a configured pragma (vnode calls go to a global stub, so a module may need nothing else from the runtime)' },
    *gen() { for (const a of G.FOCUS) for (const b of G.CORE.concat(G.STATE_D)) { if (G.onceOk([a, b])) yield { items: [a, b], o3: true }; if (G.onceOk([b, a])) yield { items: [b, a], o3: true }; } },
  }, {
    name: 'RT:resolveType-components',
    bounds: { items: RT_KEYS, max_length: tier === 'thorough' ? 4 : 3, options: 'resolveType on', note: 'every sequence of component definitions (typed setup functions, observed: the options Vue\'s defineComponent receives) and unrelated statements (further imports from vue and from other packages, type declarations, scoped interfaces of the same names, plain and JSX statements) that contains at least one component; each component must receive the options it receives when it is the only item of the module' },
    *gen() { yield* rtCases(tier); },
  }]).concat(tier === 'thorough' ? [G.canonicalSpace(prepared, (items) => ({ items }))] : []),
  requests, judge,
  *shrink(c) { if (c.rt) { for (let i = 0; i < c.rt.length; i++) { const r = c.rt.slice(0, i).concat(c.rt.slice(i + 1)); if (r.some((k) => RT[k].comp)) yield { rt: r }; } return; } for (const items of G.shrinkItems(c.items)) if (items.length) yield { items, o2: c.o2, o3: c.o3 }; if (c.o2 || c.o3) yield { items: c.items }; },
  caseKey: (c) => c.rt ? 'RT:' + c.rt.join(' ; ') : G.key(c.items) + (c.o2 ? ' {optimize eos=off mergeProps=off}' : '') + (c.o3 ? ' {pragma}' : ''),
  depth: (c) => (c.rt || c.items).length,
};
