'use strict';
// C10 — a JSX expression's lowering does not depend on unrelated code around it (differential:
// every item's canonical value in the composed module vs. the same item transformed alone).
const H = require('../lib/hspace');
const G = require('../lib/hgen');
const { diff, diffClass, stable } = require('../lib/canon');

const OPTS = JSON.stringify({ transformOn: true, optimize: false });
const OPTS2 = JSON.stringify({ transformOn: true, optimize: true, enableObjectSlots: false, mergeProps: false });

const OPTS3 = JSON.stringify({ transformOn: true, optimize: false, pragma: 'hh' });

function requests(c) {
  const opts = c.o3 ? OPTS3 : c.o2 ? OPTS2 : OPTS;
  const reqs = [{ src: H.renderHistory(c.items), want: ['eval'], opts }];
  c.items.forEach((it, i) => reqs.push({ src: H.renderAlone(it, i), want: ['eval'], opts })); // alone, under the index it has in the history
  return reqs;
}

function judge(c, resps) {
  const r = resps[0];
  if (r.parse_error) return { engineError: 'generated history does not parse: ' + r.parse_error };
  for (const a of resps.slice(1)) if (a.parse_error) return { engineError: 'generated item does not parse: ' + a.parse_error };
  const bad = (x) => x.panic || x.died || x.hang || !x.eval_js;
  if (bad(r)) return { skip: true };
  const viol = [];
  const alones = c.items.map((it, i) => (bad(resps[i + 1]) ? null : H.observe(resps[i + 1].eval_js, i + 1, i, !!c.o2)));
  // a statement that cannot even be loaded on its own (C06's business: e.g. a generated const read in its
  // temporal dead zone) stops every module it is concatenated to; that is not a dependence of lowerings
  if (alones.some((a) => a && a.load)) return { skip: true };
  // under the optimizing option vector the update hints are part of what the expression evaluates to
  const composed = H.observe(r.eval_js, c.items.length, undefined, !!c.o2);
  const obsAll = [];
  c.items.forEach((it, i) => {
    const alone = alones[i];
    if (!alone) return;
    // an item that cannot even be loaded/evaluated alone is C06's business; here only *dependence* on the surroundings is judged
    const e = alone.load ? { load: alone.loadName } : alone.values[i];
    const o = composed.load ? { load: composed.loadName } : composed.values[i];
    obsAll.push(o);
    const d = diff(e, o);
    if (d) viol.push({ clause: 'same-as-alone', diff: 'value' + diffClass(d).replace(/^\[\*\]/, '[round]'), msg: `item ${i} (${H.itemKey(it)}) evaluates differently inside the history than alone, at ${d.path}`, expected: e, observed: o });
  });
  const uniq = new Map();
  for (const v of viol) if (!uniq.has(v.clause + v.diff)) uniq.set(v.clause + v.diff, v);
  return { viol: [...uniq.values()], obs: stable(obsAll), extraEvals: 0, clauses: ['same-as-alone'] };
}

module.exports = {
  id: 'C10',
  level: 'model_checking',
  rule: 'explicit-state BFS over module-item histories (item = syntactic context ∘ lowering, distractor, or statement-level form; all items at length 1, focus×focus pairs, core triples; deeper in the thorough tier); every history is transformed by the real visitor and executed, every item has an observation point that is activated twice (slots invoked), and its canonical value must equal the canonical value of the same item transformed and executed alone. Differential oracle, no hand-written expectation. Distinct = distinct canonical observation vectors.',
  assumptions: ['mock Vue runtime', 'node evaluator', 'distractor assignments re-assign the value already held, so composing items cannot change run-time values by itself'],
  prepare: async (tier) => (tier === 'thorough' ? G.skeleton(2, OPTS) : null),
  spaces: (tier, prepared) => G.spaces(tier, (items) => ({ items })).concat([{
    name: 'O2:optimize-on-objectSlots-off-mergeProps-off',
    bounds: { note: 'focus pairs and core triples again under optimize=true, enableObjectSlots=false, mergeProps=false' },
    *gen() { for (const a of G.FOCUS) for (const b of G.CORE.concat(G.STATE_D)) { if (G.onceOk([a, b])) yield { items: [a, b], o2: true }; if (G.onceOk([b, a])) yield { items: [b, a], o2: true }; } for (const a of G.MINI) for (const b of G.MINI) for (const d of G.MINI) if (G.onceOk([a, b, d])) yield { items: [a, b, d], o2: true }; },
  }, {
    name: 'O3:pragma-configured',
    bounds: { note: 'every item next to every focus item, both orders, with a configured pragma (vnode calls go to a global stub, so a module may need nothing else from the runtime)' },
    *gen() { for (const a of G.FOCUS) for (const b of G.CORE.concat(G.STATE_D)) { if (G.onceOk([a, b])) yield { items: [a, b], o3: true }; if (G.onceOk([b, a])) yield { items: [b, a], o3: true }; } },
  }]).concat(tier === 'thorough' ? [G.canonicalSpace(prepared, (items) => ({ items }))] : []),
  requests, judge,
  *shrink(c) { for (const items of G.shrinkItems(c.items)) if (items.length) yield { items, o2: c.o2, o3: c.o3 }; if (c.o2 || c.o3) yield { items: c.items }; },
  caseKey: (c) => G.key(c.items) + (c.o2 ? ' {optimize eos=off mergeProps=off}' : '') + (c.o3 ? ' {pragma}' : ''),
  depth: (c) => c.items.length,
};
