'use strict';
// C09 — code that is not JSX is left exactly as written; the transform is idempotent.
const H = require('../lib/hspace');
const G = require('../lib/hgen');
const { stable, hash } = require('../lib/canon');
const { sequences, product } = require('../lib/spaces');
const fs = require('fs');
const path = require('path');

// real-world JSX-free corpus: the npm tree that ships with the image's node (a fixed finite set, enumerated completely)
const CORPUS_ROOT = '/usr/lib/node_modules/npm';
function corpusFiles(limit) {
  const out = [];
  const walk = (d) => {
    let ents;
    try { ents = fs.readdirSync(d, { withFileTypes: true }); } catch (e) { return; }
    ents.sort((a, b) => (a.name < b.name ? -1 : 1));
    for (const e of ents) {
      if (out.length >= limit) return;
      const p = path.join(d, e.name);
      if (e.isDirectory()) walk(p);
      else if (/\.(js|mjs|cjs)$/.test(e.name)) { try { if (fs.statSync(p).size < 65536) out.push(p); } catch (e2) {} }
    }
  };
  walk(CORPUS_ROOT);
  return out;
}

const T_ITEMS = Object.keys(H.T).map((t) => ({ t }));
const TS_MIX = T_ITEMS.concat(G.CORE.filter((it) => !(it.d && ['importFragmentAlias'].includes(it.d))));

// JSX-free TypeScript modules whose `defineComponent` is not Vue's: nothing in them may change, whatever resolveType says
const FOREIGN_FROM = ['vue-demi', 'vuex', 'vuetify/lib', 'vue-router', './vue', '@vue/runtime-core', 'Vue', 'other-lib'];
const FOREIGN_IMPORT = {
  named: (m) => `import { defineComponent } from '${m}';`,
  withVueTypes: (m) => `import type { SetupContext } from 'vue';\nimport { defineComponent } from '${m}';`,
  afterVueValue: (m) => `import { ref, h } from 'vue';\nimport { defineComponent } from '${m}';`,
  beforeVueValue: (m) => `import { defineComponent } from '${m}';\nimport { ref, h } from 'vue';`,
  aliasedVueNextToIt: (m) => `import { defineComponent as vueDc } from 'vue';\nimport { defineComponent } from '${m}';`,
  defaultImport: (m) => `import defineComponent from '${m}';`,
};
const FOREIGN_BODY = {
  constTyped: 'const Comp = defineComponent((p: { msg: string }) => {});',
  exportDefaultCtx: "export default defineComponent((p: { n?: number }, ctx: SetupContext<{ close(): void }>) => {}, opts);\ndeclare const opts: any;",
  bareIface: 'interface P { a: string }\ndefineComponent((props: P) => () => null, { inheritAttrs: false });',
  defaulted: "export const D = defineComponent((props: { a?: string } = { a: 'z' }) => null);",
};
function foreignSrc(c) { return `${FOREIGN_IMPORT[c.imp](c.from)}\n${FOREIGN_BODY[c.body]}\n`; }

function optsOf(c) { return JSON.stringify({ transformOn: true, optimize: !!c.o.optimize, enableObjectSlots: c.o.eos !== false, resolveType: !!c.o.resolveType }); }
function requests(c) { if (c.foreign) return [{ src: foreignSrc(c), ts: true, want: ['frame', 'ident_in'], opts: JSON.stringify({ resolveType: true, optimize: !!c.o.optimize, transformOn: true }) }]; if (c.file) { let src = ''; try { src = fs.readFileSync(c.file, 'utf8'); } catch (e) {} return [{ src, want: ['frame', 'ident_in'], opts: JSON.stringify({ optimize: true, resolveType: true, transformOn: true }) }]; } return [{ src: H.renderHistory(c.items, !!c.ts), ts: !!c.ts, want: ['frame', 'second', 'ident_in'], opts: optsOf(c) }]; }

function judge(c, resps) {
  const r = resps[0];
  if (c.foreign) {
    if (r.parse_error) return { engineError: 'generated module does not parse: ' + r.parse_error + ' :: ' + foreignSrc(c) };
    if (r.panic || r.died || r.hang || r.printed === undefined) return { skip: true };
    const v = [];
    if (!r.frame || !r.frame.ok) v.push({ clause: 'frame', diff: 'frame:different', msg: "a module without JSX whose defineComponent is not Vue's was changed", expected: r.frame && r.frame.in, observed: r.frame && r.frame.out });
    if (typeof r.ident_in !== 'string' || r.printed !== r.ident_in) v.push({ clause: 'jsx-free-unchanged', diff: 'printed:different', msg: "a module without JSX whose defineComponent is not Vue's is not returned unchanged", expected: r.ident_in, observed: r.printed });
    return { viol: v, obs: hash(r.printed), clauses: ['frame', 'jsx-free-unchanged'] };
  }
  if (c.file) {
    if (r.parse_error || r.panic || r.died || r.hang || r.printed === undefined) return { skip: true }; // scripts / non-module syntax: outside the quantifier
    const v = [];
    if (!r.frame || !r.frame.ok) v.push({ clause: 'corpus-frame', diff: 'frame:different', msg: 'a real-world JSX-free file was changed', expected: r.frame && r.frame.in && r.frame.in.slice(0, 400), observed: r.frame && r.frame.out && r.frame.out.slice(0, 400) });
    if (typeof r.ident_in === 'string' && r.printed !== r.ident_in) v.push({ clause: 'corpus-unchanged', diff: 'printed:different', msg: 'a real-world JSX-free file is not returned unchanged' });
    return { viol: v, obs: hash(r.printed), clauses: ['corpus-frame', 'corpus-unchanged'] };
  }
  if (r.parse_error) return { engineError: 'generated history does not parse: ' + r.parse_error + ' :: ' + H.renderHistory(c.items, !!c.ts).slice(0, 300) };
  if (r.panic || r.died || r.hang || r.printed === undefined) return { skip: true };
  // a history with an item for which the transform *must* report an error (await / yield in slot content) has no output program to judge once it did
  if ((r.diags || []).some((d) => d.level === 'error') && c.items && c.items.some((it) => it.d && H.D[it.d].diag)) return { skip: true };
  const viol = [];
  const f = r.frame;
  if (!f || !f.ok) viol.push({ clause: 'frame', diff: f && f.error ? 'frame:error' : 'frame:different', msg: 'after erasing lowered JSX, generated declarations and defineComponent augmentations the output is not the input', expected: f && f.in, observed: f && (f.out || f.error) });
  // idempotence: the pass applied to its own printed output vs. the identity pipeline on that output
  if (typeof r.printed2 !== 'string' || typeof r.printed_id !== 'string') viol.push({ clause: 'idempotent', diff: 'second-pass:failed', msg: 'second pass failed', observed: r.printed2 });
  else if (r.printed2 !== r.printed_id) viol.push({ clause: 'idempotent', diff: 'second-pass:changed-output', msg: 'running the transform on its own output changes it', expected: r.printed_id, observed: r.printed2 });
  // a module without JSX (and without augmentable defineComponent calls) comes back unchanged, nothing added
  const jsxFree = !c.items.some(H.itemHasJsx) && !(c.o.resolveType && c.items.some(H.itemAugmentable));
  if (jsxFree) {
    if (typeof r.ident_in !== 'string') viol.push({ clause: 'jsx-free-unchanged', diff: 'identity:failed', msg: 'identity pipeline failed' });
    else if (r.printed !== r.ident_in) viol.push({ clause: 'jsx-free-unchanged', diff: 'printed:different', msg: 'a module without JSX is not returned unchanged', expected: r.ident_in, observed: r.printed });
  }
  return { viol, obs: hash(r.printed || ''), nontrivial: c.items.length > 0, clauses: ['frame', 'idempotent'].concat(jsxFree ? ['jsx-free-unchanged'] : []) };
}

const O_JS = [{ optimize: false }, { optimize: true }, { optimize: false, eos: false }];
const O_TS = [...product([[false, true], [false, true]])].map(([resolveType, optimize]) => ({ resolveType, optimize }));

function spaces(tier) {
  const thorough = tier === 'thorough';
  const base = G.spaces(tier, (items) => ({ items, o: O_JS[0] }));
  const sp = [];
  for (const s of base) {
    sp.push({
      name: s.name + '×options',
      bounds: Object.assign({}, s.bounds, { options: 'optimize on/off, enableObjectSlots off (single deviations); quick tier: for pairs without a core item and for triples only the default vector' }),
      // quick: every option vector for histories of length ≤1 and for pairs that contain a core item; the default vector for the rest
      *gen() { const coreKeys = new Set(G.CORE.map((it) => G.key([it]))); for (const c of s.gen()) for (const o of (thorough || c.items.length <= 1 || (c.items.length === 2 && c.items.some((it) => coreKeys.has(G.key([it])))) ? O_JS : [O_JS[0]])) yield { items: c.items, o }; },
    });
  }
  sp.push({
    name: 'T:tsx-histories',
    bounds: { ts_items: Object.keys(H.T), mixed_with: 'core items', max_length: thorough ? 3 : 2, options: 'resolveType × optimize' },
    *gen() {
      for (const seq of sequences(TS_MIX.length, thorough ? 3 : 2, { minLen: 1 })) {
        const items = seq.map((i) => TS_MIX[i]);
        if (!G.onceOk(items) || !items.some((it) => it.t)) continue;
        for (const o of O_TS) yield { items, ts: true, o };
      }
    },
  });
  sp.push({
    name: 'F:foreign-defineComponent',
    bounds: { from: FOREIGN_FROM, import_forms: Object.keys(FOREIGN_IMPORT), bodies: Object.keys(FOREIGN_BODY), options: 'resolveType=true × optimize' },
    *gen() { for (const from of FOREIGN_FROM) for (const imp of Object.keys(FOREIGN_IMPORT)) for (const body of Object.keys(FOREIGN_BODY)) for (const optimize of [false, true]) yield { foreign: true, from, imp, body, items: [], o: { optimize } }; },
  });
  sp.push({
    name: 'W:real-world-jsx-free-corpus',
    bounds: { root: CORPUS_ROOT, files: thorough ? 'all *.js/*.mjs/*.cjs < 64 KiB' : 'the first 400 in sorted walk order', note: 'files the SWC parser does not accept as a module are skipped; thorough: the fixed corpus is enumerated completely; quick: a deterministic prefix of it (labelled: a subset, supplementary to the generated histories)' },
    *gen() { for (const file of corpusFiles(thorough ? 1e9 : 400)) yield { file, items: [], o: {} }; },
  });
  return sp;
}

function* shrink(c) {
  if (c.foreign) { if (c.imp !== 'named') yield Object.assign({}, c, { imp: 'named' }); if (c.body !== 'constTyped') yield Object.assign({}, c, { body: 'constTyped' }); if (c.o.optimize) yield Object.assign({}, c, { o: { optimize: false } }); return; }
  if (c.file) return;
  for (const items of G.shrinkItems(c.items)) if (items.length && (!c.ts || items.every((it) => it.t || it.d || it.k))) yield Object.assign({}, c, { items });
  if (c.o.optimize) yield Object.assign({}, c, { o: Object.assign({}, c.o, { optimize: false }) });
  if (c.o.eos === false) yield Object.assign({}, c, { o: Object.assign({}, c.o, { eos: true }) });
  if (c.o.resolveType) yield Object.assign({}, c, { o: Object.assign({}, c.o, { resolveType: false }) });
}

module.exports = {
  id: 'C09',
  level: 'model_checking',
  rule: 'explicit-state BFS over module-item histories (JSX embedded in assignments, arrows incl. async/typed/generic, classes, loops, try/catch, labelled blocks, switch, default parameters; JSX-free distractors; TS declarations and defineComponent calls in .tsx histories) × option vectors; for every state the driver compares the visitor\'s raw output AST with the input AST after erasing (input) outermost JSX expressions and (output) generated-span expression subtrees, generated import/let/const/function items, arrow bodies folded back, and - under resolveType - generated options of calls to vue\'s defineComponent: the two must be equal span-insensitively (order-sensitive); JSX-free states must print byte-identically to the identity pipeline; and the transform applied to its own printed output must equal the identity pipeline on that output. Distinct = distinct printed outputs.',
  assumptions: ['span criterion for "generated" (DUMMY_SP / reserved dummy range)', 'swc eq_ignore_span', 'identity pipeline = parse → resolver → hygiene → fixer → codegen without the visitor'],
  spaces, requests, judge, shrink,
  caseKey: (c) => (c.foreign ? `F:${c.imp} from '${c.from}' ; ${c.body}` : c.file ? 'W:' + c.file : G.key(c.items)) + ` {${c.ts ? 'tsx ' : ''}${Object.keys(c.o).filter((k) => c.o[k] !== undefined).map((k) => k + '=' + c.o[k]).join(',')}}`,
  depth: (c) => c.items.length,
};
