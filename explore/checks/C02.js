'use strict';
// C02 — children and JSX text follow the JSX whitespace and child-list rules.
const { sequences } = require('../lib/spaces');
const { cleanJsxText } = require('../ref/jsxtext');
const { withModule, errStr } = require('../lib/evalmod');
const { canonValue, diff, diffClass, stable } = require('../lib/canon');
const E = require('../lib/espace');

const { SYM, SYM_X } = require('../lib/tsyms');
const L_HOSTS = ['div', 'frag', 'Fragment', 'FragmentI', 'FragmentAlias2', 'FragmentStr', 'FragmentAfterDc', 'FragmentTwoImports', 'KeepAlive', 'iiconPat', 'iiconPat2', 'iiconPat3', 'IonCardPat'];
const L_CHILDREN = Object.keys(E.CHILDREN);

// earlier statements (C02 is about one element, but its lowering must not depend on what was lowered before it)
const PRIMERS = {
  memberDiv: '__out.pre = () => <ns.div>p{x}</ns.div>;',
  memberB: '__out.pre = () => [<ns.b.c>p</ns.b.c>, <ns.input>{y}</ns.input>];',
  comp: '__out.pre = () => <Comp>{x}</Comp>;',
  compTpl: '__out.pre = () => <Comp>{`p ${x}`}</Comp>;',
  fragTpl: '__out.pre = () => <>{`p ${x}`}</>;',
  keepAlive: "__out.pre = () => <KeepAlive><B/></KeepAlive>;",
};
function tSrc(s, x) { return s.map((i) => (x ? SYM_X : SYM)[i][1]).join(''); }
function tDec(s, x) { return s.map((i) => (x ? SYM_X : SYM)[i][2]).join(''); }

function spaces(tier) {
  const tLen = tier === 'thorough' ? 6 : 5;
  const lLen = tier === 'thorough' ? 4 : 3;
  return [
    {
      name: 'T:text-strings',
      bounds: { alphabet: SYM.map((s) => s[0]), max_length: tLen, placements: ['only child', 'between expression containers', 'between elements', 'only child of a fragment', 'between a comment container and an empty container', 'only child of a component (default slot content)'] },
      *gen() { for (const s of sequences(SYM.length, tLen)) yield { sp: 'T', s }; },
    },
    {
      name: 'X:exotic-text',
      bounds: { alphabet: SYM_X.map((s) => s[0]), max_length: tier === 'thorough' ? 4 : 3, note: 'form feed, vertical tab, U+2028/2029, zero-width space, BOM, astral and combining characters, numeric entities for line break / space / tab / astral, an unknown entity, &lt; and an entity-encoded brace - the same six placements' },
      *gen() { for (const s of sequences(SYM_X.length, tier === 'thorough' ? 4 : 3)) yield { sp: 'T', s, x: true }; },
    },
    {
      name: 'L:child-lists',
      bounds: { hosts: L_HOSTS, alphabet: L_CHILDREN, max_length: lLen, rule: 'text never adjacent to text (the parser would merge it)' },
      *gen() {
        for (const host of L_HOSTS) {
          for (const ch of sequences(L_CHILDREN.length, lLen, {
            ok: (idx, pos) => !(pos > 0 && E.isText(L_CHILDREN[idx[pos]]) && E.isText(L_CHILDREN[idx[pos - 1]])),
          })) yield { sp: 'L', host, ch: ch.map((i) => L_CHILDREN[i]) };
        }
      },
    },
    {
      name: 'W:wrapped-children',
      bounds: { wrappers: Object.keys(E.WRAPS), wrapped: L_CHILDREN.filter((k) => E.wrapChild(E.CHILDREN[k].src, 'paren')), hosts: L_HOSTS, max_length: lLen, syntax: 'tsx', note: 'one expression child per list is wrapped in a semantically transparent wrapper; same expected list' },
      *gen() {
        for (const host of L_HOSTS) for (const ch of sequences(L_CHILDREN.length, lLen, {
          minLen: 1, ok: (idx, pos) => !(pos > 0 && E.isText(L_CHILDREN[idx[pos]]) && E.isText(L_CHILDREN[idx[pos - 1]])),
        })) {
          const list = ch.map((i) => L_CHILDREN[i]);
          if (list.length === lLen && !['div', 'Fragment'].includes(host)) continue;
          for (let i = 0; i < list.length; i++) if (E.wrapChild(E.CHILDREN[list[i]].src, 'paren')) for (const w of Object.keys(E.WRAPS)) yield { sp: 'L', host, ch: list, w: [i, w] };
        }
      },
    },
    {
      name: 'P:after-an-earlier-element',
      bounds: { primers: Object.keys(PRIMERS), hosts: L_HOSTS, max_length: 2, note: 'an earlier statement of the module lowers another element first (same tag name as a member tag, a component, a fragment); what the later element\'s children become must not depend on it' },
      *gen() {
        for (const pre of Object.keys(PRIMERS)) for (const host of L_HOSTS) for (const ch of sequences(L_CHILDREN.length, 2, {
          minLen: 1, ok: (idx, pos) => !(pos > 0 && E.isText(L_CHILDREN[idx[pos]]) && E.isText(L_CHILDREN[idx[pos - 1]])),
        })) yield { sp: 'L', host, ch: ch.map((i) => L_CHILDREN[i]), pre };
      },
    },
  ];
}

function requests(c) {
  if (c.sp === 'T') {
    const t = tSrc(c.s, c.x);
    const src = E.PRELUDE +
      `__out.only = () => <div>${t}</div>;\n` +
      `__out.between = () => <div>{x}${t}{y}</div>;\n` +
      `__out.elems = () => <div><b/>${t}<i/></div>;\n` +
      `__out.frag = () => <>${t}</>;\n` +
      `__out.cmts = () => <div>{/* c */}${t}{}</div>;\n` +
      `__out.slot = () => <Comp>${t}</Comp>;\n`;
    return [{ src, want: ['eval'], opts: '{}' }];
  }
  const h = E.HOSTS[c.host];
  const jsx = E.renderJsx(c.host, [], c.ch.map((k, i) => (c.w && c.w[0] === i ? E.wrapChild(E.CHILDREN[k].src, c.w[1]) : E.CHILDREN[k].src)));
  const mod = E.renderModule(c.host, jsx);
  return [{ src: c.pre ? mod.replace('__out.mk =', PRIMERS[c.pre] + '\n__out.mk =') : mod, ts: !!c.w, want: ['eval'], opts: E.optsJson({ pattern: h.pattern }) }];
}

const EL = (t) => ({ __expectVNode: { type: 'tag:' + t, props: null, children: null } });

function judge(c, resps) {
  const r = resps[0];
  if (r.parse_error) return { engineError: 'generated case does not parse: ' + r.parse_error };
  // a well-formed input of this space for which the transform panics or kills its process has no output that could satisfy the property
  if (r.panic || r.died) return { viol: [{ clause: 'transform-failed', diff: r.panic ? 'panic' : 'process-died', msg: r.panic ? `panic in ${r.panic.stage}: ${r.panic.msg}` : 'the transform killed its process' }], obs: 'transform-failed' };
  if (r.hang || !r.eval_js) return { skip: true }; // totality is C08's business
  const env = E.makeEnv();
  const ctx = { names: env.names, flags: false };
  const viol = [];
  let obs;
  withModule(r.eval_js, env, (out, rec, loadError) => {
    if (loadError) { viol.push({ clause: 'load', diff: 'exception:' + loadError.name, msg: errStr(loadError) }); return; }
    const probe = (name, expectedChildren) => {
      let v;
      try { v = out[name](); } catch (e) { viol.push({ clause: name, diff: 'exception:' + e.name, msg: errStr(e) }); return null; }
      const o = canonValue(v, ctx, []);
      const e = expectedChildren.length ? expectedChildren.map((x) => canonValue(x, ctx, [])) : null;
      const d = diff(e, o && o.children);
      if (d) viol.push({ clause: name, diff: diffClass(d), msg: `children differ at ${d.path}`, expected: e, observed: o && o.children });
      return o && o.children;
    };
    if (c.sp === 'T') {
      const cleaned = cleanJsxText(tDec(c.s, c.x));
      const tx = cleaned === '' ? [] : [E.TX(cleaned)];
      const a = probe('only', tx);
      const b = probe('between', [env.bound.x, ...tx, env.bound.y]);
      const d = probe('elems', [EL('b'), ...tx, EL('i')]);
      const f = probe('frag', tx);
      const g = probe('cmts', tx);
      // as the only child of a component the text is the content of the default slot (no slot at all when nothing is left)
      let sl = null;
      try {
        const o = canonValue(out.slot(), ctx, []);
        sl = o && o.children;
        const ret = sl && sl.slots && sl.slots.default ? sl.slots.default.ret : sl;
        const e = tx.length ? tx.map((x) => canonValue(x, ctx, [])) : null;
        const dd = diff(e, ret);
        if (dd) viol.push({ clause: 'slot', diff: diffClass(dd), msg: `text as the only child of a component: default slot content differs at ${dd.path}`, expected: e, observed: sl });
      } catch (e) { viol.push({ clause: 'slot', diff: 'exception:' + e.name, msg: errStr(e) }); }
      obs = stable([a, b, d, f, g, sl]);
    } else {
      const exp = [];
      for (const k of c.ch) exp.push(...E.CHILDREN[k].m(env));
      const a = probe('mk', exp);
      obs = stable(a);
    }
  });
  return { viol, obs, nontrivial: c.sp === 'T' ? c.s.length > 0 : c.ch.length > 0, clauses: c.sp === 'T' ? ['only', 'between', 'elems', 'frag', 'cmts', 'slot'] : ['mk'] };
}

function* shrink(c) {
  if (c.sp === 'T') {
    for (let i = 0; i < c.s.length; i++) yield { sp: 'T', s: c.s.slice(0, i).concat(c.s.slice(i + 1)), x: c.x };
    // simplify symbols: any letter/entity → 'a'
    for (let i = 0; i < c.s.length; i++) if (!c.x && ['b', '&amp;'].includes(SYM[c.s[i]][0])) { const s = c.s.slice(); s[i] = 0; yield { sp: 'T', s }; }
  } else {
    if (c.pre) yield { sp: 'L', host: c.host, ch: c.ch, w: c.w };
    if (c.w) yield { sp: 'L', host: c.host, ch: c.ch, pre: c.pre };
    if (c.w && c.w[1] !== 'paren') yield { sp: 'L', host: c.host, ch: c.ch, w: [c.w[0], 'paren'] };
    for (let i = 0; i < c.ch.length; i++) {
      if (c.w && c.w[0] === i) continue;
      const ch = c.ch.slice(0, i).concat(c.ch.slice(i + 1));
      let ok = true;
      for (let j = 1; j < ch.length; j++) if (E.isText(ch[j]) && E.isText(ch[j - 1])) ok = false;
      if (ok) yield { sp: 'L', host: c.host, ch, pre: c.pre, w: c.w && [c.w[0] - (i < c.w[0] ? 1 : 0), c.w[1]] };
    }
    if (c.host !== 'div') yield { sp: 'L', host: 'div', ch: c.ch, w: c.w, pre: c.pre };
  }
}

function caseKey(c) {
  if (c.sp === 'T') return (c.x ? 'X:' : 'T:') + c.s.map((i) => (c.x ? SYM_X : SYM)[i][0]).join('.');
  return `L:${c.host}[${c.ch.map((k, i) => (c.w && c.w[0] === i ? c.w[1] + '(' + k + ')' : k)).join(',')}]${c.pre ? ' after ' + c.pre : ''}`;
}

module.exports = {
  id: 'C02',
  level: 'model_checking',
  rule: 'explicit-state BFS over construction histories, every state run through the real pipeline and executed against a mock Vue runtime: (T) every string over the whitespace alphabet up to the length bound as JSX text in three child positions, expected = reference JSX text rule on the decoded text; (L) every child sequence over the child alphabet up to the length bound on every non-component host kind, expected = in-order list of cleaned texts, expression values, spliced spreads and nested vnodes, or null. A case is non-trivial when its history is non-empty; distinct = distinct canonical observed children.',
  assumptions: ['mock Vue runtime (createVNode/createTextVNode) and node evaluator', 'SWC parser entity decoding', 'reference JSX text rule transcribed from the property statement'],
  spaces, requests, judge, shrink, caseKey,
  depth: (c) => (c.sp === 'T' ? c.s.length : c.ch.length),
};
