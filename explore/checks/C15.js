'use strict';
// C15 — the vnode factory is createVNode unless a pragma names another.
const { withModule, errStr } = require('../lib/evalmod');
const { stable } = require('../lib/canon');

// comment text: what it should make the factory (null = no effect)
const TEXTS = {
  name: { t: '@jsx hh', factory: 'hh' }, words: { t: '@jsx hh and more words', factory: 'hh' }, bare: { t: '@jsx', factory: null },
  importSource: { t: '@jsxImportSource vue', factory: null }, runtime: { t: '@jsxRuntime automatic', factory: null }, frag: { t: '@jsxFrag FF', factory: null },
  unrelated: { t: 'just a comment about jsx', factory: null }, prose: { t: 'we do not set the @jsx pragma here', factory: null }, license: { t: '@license MIT', factory: null },
  other: { t: '@jsx gg', factory: 'gg' },
  // identifiers that are not plain ASCII letters
  unicode: { t: '@jsx cr\u00e9er', factory: 'cr\u00e9er' }, dollar: { t: '@jsx $h_2', factory: '$h_2' }, cjk: { t: '@jsx \u521b\u5efa rest', factory: '\u521b\u5efa' },
  tab: { t: '@jsx\thh', factory: 'hh' }, twoSpaces: { t: '@jsx   hh  ', factory: 'hh' }, tabWords: { t: '@jsx\thh\tand words', factory: 'hh' }, glued: { t: '@jsxhh', factory: null },
};
const STYLES = {
  block: (t) => `/* ${t} */`,
  jsdocCRLF: (t) => `/**\r\n * ${t}\r\n */`, lineCRLF: (t) => `// ${t}\r`,
  // other comments at the same position, before / after the annotation
  afterBanner: (t) => `/* (c) the authors */\n/* ${t} */`, afterLine: (t) => `// eslint-disable-next-line\n// ${t}`, beforeNote: (t) => `/* ${t} */\n/* a note */`, jsdoc: (t) => `/** ${t} */`, jsdocMulti: (t) => `/**\n * ${t}\n */`, jsdocMulti2: (t) => `/**\n * @file demo\n * ${t}\n * @license MIT\n */`, otherTagBefore: (t) => `/**\n * @jsxRuntime classic\n * ${t}\n */`, otherTagAfter: (t) => `/**\n * ${t}\n * @jsxImportSource vue\n */`, line: (t) => `// ${t}`, tight: (t) => `/*${t}*/`,
};
// module shapes: statements; `calls` = number of element + fragment vnode calls when everything is evaluated
const SHAPES = {
  one: { stmts: ['__out.a = () => <div id="a" />;'], calls: 1 },
  two: { stmts: ['__out.a = () => <div />;', '__out.b = () => <><i /></>;'], calls: 3 },
  nested: { stmts: ['const z = 1;', '__out.a = () => <div><b><i /></b><></></div>;'], calls: 4 },
  comp: { stmts: ['__out.a = () => <Comp>{x}{y}</Comp>;', '__out.b = () => <p />;'], calls: 2 },
  // elements that are wrapped (withDirectives) or nested in attribute values / slot objects are vnode calls like any other
  // the factory's name is also a binding of the module: the calls go to that binding
  boundFactory: { stmts: ['function hh(t, p, c) { return __env.local(t, p, c); }', '__out.a = () => <div id="a"><b/></div>;'], calls: 2, bound: 'hh' },
  boundImport: { stmts: ["import { hh } from 'lib';", '__out.a = () => <><i /></>;'], calls: 2, bound: 'hh' },
  dirs: { stmts: ['__out.a = () => <div v-show={x} />;', '__out.b = () => <Comp v-foo={y} />;', 'let mvv = 1;\n__out.c = () => <input v-model={mvv} />;'], calls: 3 },
  attrJsx: { stmts: ['__out.a = () => <div icon=<b/> tip={<i/>} />;', '__out.b = () => <Comp v-slots={{ foo: () => <u/> }} />;'], calls: 5, slots: true },
};
// placement of the comment; `leading` = it is the leading comment of the module / a top-level statement
const PLACEMENTS = {
  head: { leading: true, put: (cm, st) => [cm].concat(st) },
  // the file starts with a hashbang line: the annotation still leads the first statement
  headAfterHashbang: { leading: true, hashbang: true, put: (cm, st) => [cm].concat(st) },
  beforeSecond: { leading: true, put: (cm, st) => (st.length > 1 ? [st[0], cm].concat(st.slice(1)) : ['const z0 = 0;', cm].concat(st)) },
  beforeLast: { leading: true, put: (cm, st) => st.slice(0, -1).concat([cm, st[st.length - 1]]) },
  inFunction: { leading: false, put: (cm, st) => ['function unused() {\n  ' + cm.replace(/\n/g, '\n  ') + '\n  return 1;\n}'].concat(st) },
  trailing: { leading: false, put: (cm, st) => st.concat([cm]) },
  afterImport: { leading: true, put: (cm, st) => ["import { isVNode } from 'vue';", cm].concat(st) },
  // the annotated top-level item is itself an import / export declaration (not the first item of the module)
  beforeLaterImport: { leading: true, put: (cm, st) => ["import { isVNode } from 'vue';", cm + "\nimport { ref as unusedRef } from 'vue';"].concat(st) },
  beforeImportAfterStmt: { leading: true, put: (cm, st) => ['const z1 = 1;', cm + "\nimport { ref as unusedRef2 } from 'vue';"].concat(st) },
  beforeExport: { leading: true, put: (cm, st) => ['const z2 = 2;', cm + '\nexport const exported = z2;'].concat(st) },
};
const PRELUDE = 'const { x, y, Comp } = __env.bound;';

function render(c) {
  const st = SHAPES[c.shape].stmts;
  if (c.text === 'none') return [PRELUDE].concat(st).join('\n') + '\n';
  const cm = STYLES[c.style](TEXTS[c.text].t);
  let parts = PLACEMENTS[c.place].put(cm, st);
  // second annotation (same file): the module-wide factory is decided by annotations only; not generated when they conflict
  // an ordinary (non-annotation) comment before another top-level statement must not disturb the annotation
  if (c.extra === 'later') parts = parts.concat(['// the list\nconst zz = 2;', '/* eslint-disable-next-line */\nconst zz2 = 3;']);
  const early = c.extra === 'earlier' ? ['/* @license MIT */\nconst z00 = 0;'] : [];
  return (PLACEMENTS[c.place].hashbang ? '#!/usr/bin/env node\n' : '') + (c.place === 'head' || c.place === 'headAfterHashbang' ? parts.slice(0, 1).concat([PRELUDE], early, parts.slice(1)) : [PRELUDE].concat(early, parts)).join('\n') + '\n';
}

const optName = (c) => (c.opt === 'u' ? 'fabriqu\u00e9' : 'pp');
function requests(c) {
  return [{ src: render(c), want: ['eval'], entry: c.entry, opts: c.opt ? JSON.stringify({ pragma: optName(c), optimize: c.optimize }) : (c.optimize ? JSON.stringify({ optimize: true }) : (c.entry === 'plugin' ? undefined : '{}')) }];
}

function expectedFactory(c) {
  if (c.text !== 'none' && PLACEMENTS[c.place].leading && TEXTS[c.text].factory) return TEXTS[c.text].factory; // the annotation takes precedence over the option
  return c.opt ? optName(c) : 'createVNode';
}

function judge(c, resps) {
  const r = resps[0];
  if (r.parse_error) return { engineError: 'generated module does not parse: ' + r.parse_error };
  // a well-formed input of this space for which the transform panics or kills its process has no output that could satisfy the property
  if (r.panic || r.died) return { viol: [{ clause: 'transform-failed', diff: r.panic ? 'panic' : 'process-died', msg: r.panic ? `panic in ${r.panic.stage}: ${r.panic.msg}` : 'the transform killed its process' }], obs: 'transform-failed' };
  if (r.hang || !r.eval_js) return { skip: true };
  const viol = [];
  const counts = { hh: 0, gg: 0, pp: 0, FF: 0, local: 0, 'cr\u00e9er': 0, $h_2: 0, '\u521b\u5efa': 0, 'fabriqu\u00e9': 0 };
  const stub = (name) => function (type, props, children) { counts[name]++; return { __v_isVNode: true, type, props: props || null, children: children === undefined ? null : children }; };
  const localStub = stub('local');
  const env = { local: localStub, modules: { lib: { hh: localStub } }, bound: { x: 'x', y: 'y', Comp: { __c: 'Comp' } }, globals: Object.fromEntries(Object.keys(counts).filter((k) => k !== 'local').map((k) => [k, stub(k)])) };
  let created = 0;
  withModule(r.eval_js, env, (out, rec, loadError) => {
    if (loadError) { viol.push({ clause: 'load', diff: 'exception:' + loadError.name, msg: errStr(loadError) }); return; }
    try {
      for (const k of Object.keys(out)) { const v = out[k](); if (v && v.children && typeof v.children === 'object' && !Array.isArray(v.children)) for (const sk of Object.keys(v.children)) if (typeof v.children[sk] === 'function') v.children[sk](); }
    } catch (e) { viol.push({ clause: 'run', diff: 'exception:' + e.name, msg: errStr(e) }); return; }
    created = rec.vnodes.filter((v) => !v.__text).length;
  });
  let want = expectedFactory(c);
  if (SHAPES[c.shape].bound && want === SHAPES[c.shape].bound) want = 'local'; // the module's own binding of that name
  const total = SHAPES[c.shape].calls;
  const got = Object.assign({ createVNode: created }, counts);
  if (!viol.length) {
    for (const f of Object.keys(got)) {
      const exp = f === want ? total : 0;
      if (got[f] !== exp) { viol.push({ clause: 'factory', diff: `calls:${want}-expected`, msg: `expected all ${total} element/fragment calls to go to ${want}; observed ${JSON.stringify(got)}`, expected: { [want]: total }, observed: got }); break; }
    }
    const importsCreateVNode = /\bcreateVNode\b/.test(r.printed || '');
    if (want !== 'createVNode' && importsCreateVNode) viol.push({ clause: 'import-list', diff: 'createVNode:imported-but-unneeded', msg: 'createVNode is imported although every vnode call goes to the pragma', observed: r.printed });
    if (want === 'createVNode' && ((r.printed || '').match(/createVNode as/g) || []).length !== 1) viol.push({ clause: 'import-list', diff: 'createVNode:not-imported-once', msg: 'createVNode is not imported exactly once', observed: r.printed });
  }
  return { viol, obs: stable(got), clauses: ['factory', 'import-list'] };
}

function* cases(tier) {
  for (const entry of ['visitor', 'plugin']) for (const opt of [false, true, 'u']) for (const shape of Object.keys(SHAPES)) {
    if (opt === 'u' && !['one', 'two', 'dirs'].includes(shape)) continue; // the non-ASCII option name on a subset of the shapes
    for (const optimize of [false, true]) yield { entry, opt, shape, text: 'none', optimize };
    for (const text of Object.keys(TEXTS)) for (const style of Object.keys(STYLES)) for (const place of Object.keys(PLACEMENTS)) {
      for (const extra of ['none', 'later', 'earlier']) if (!(extra === 'later' && place === 'trailing')) for (const optimize of [false, true]) yield { entry, opt, shape, text, style, place, optimize, extra };
    }
  }
}

function* shrink(c) {
  if (c.entry !== 'visitor') yield Object.assign({}, c, { entry: 'visitor' });
  if (c.opt) yield Object.assign({}, c, { opt: false });
  if (c.shape !== 'one') yield Object.assign({}, c, { shape: 'one' });
  if (c.text !== 'none') {
    if (c.style !== 'block') yield Object.assign({}, c, { style: 'block' });
    if (c.place !== 'head') yield Object.assign({}, c, { place: 'head' });
    if (c.text !== 'name' && TEXTS[c.text].factory) yield Object.assign({}, c, { text: 'name' });
  }
  if (c.optimize) yield Object.assign({}, c, { optimize: false });
  if (c.extra && c.extra !== 'none') yield Object.assign({}, c, { extra: 'none' });
}

module.exports = {
  id: 'C15',
  level: 'model_checking',
  rule: 'complete product comment style (block, JSDoc one-line / multi-line, line, tight) × placement (file head, before the 2nd / last top-level statement, after an import, inside a function body, trailing) × annotation text (@jsx name, name followed by more words, bare @jsx, @jsxImportSource / @jsxRuntime / @jsxFrag, prose, another name) × pragma option present/absent × module shape (one element; element + fragment in two statements; nested elements and fragments; component with slot) × entry (visitor, real plugin entry); each state is transformed by the real code and executed with recording stubs for every candidate factory: all element and fragment calls must land in exactly the expected factory (annotation at the head of the file or before a top-level statement wins over the option, everything else leaves createVNode), createVNode imported exactly once or not at all accordingly. Distinct = distinct call-count vectors.',
  assumptions: ['mock Vue runtime + global recording stubs', 'node evaluator', 'comments delivered to the plugin entry as SingleThreadedComments'],
  spaces: (tier) => [{ name: 'O:pragma', bounds: { styles: Object.keys(STYLES), placements: Object.keys(PLACEMENTS), texts: Object.keys(TEXTS), shapes: Object.keys(SHAPES), option: ['absent', '"pp"', '"fabriqu\u00e9" (on a subset of the shapes)'], entries: ['visitor', 'plugin'] }, *gen() { yield* cases(tier); } }],
  requests, judge, shrink,
  caseKey: (c) => `${c.entry}:${c.opt ? 'pragma=' + optName(c) + ' ' : ''}${c.optimize ? 'optimize ' : ''}${c.shape}:${c.text === 'none' ? 'no comment' : c.place + ':' + JSON.stringify(STYLES[c.style](TEXTS[c.text].t)) + (c.extra && c.extra !== 'none' ? '+ordinary-comment-' + c.extra : '')}`,
  depth: (c) => (c.text === 'none' ? 0 : 1) + (c.opt ? 1 : 0),
};
