'use strict';
// C18 — parameter defaults become runtime prop defaults without changing them.
const R = require('../lib/rspace');
const V = require('../lib/vue');
const { canonValue, stable, Names } = require('../lib/canon');
const { product } = require('../lib/spaces');

// props: key spelling in the type, type, kind ('val' | 'fn')
const PROPS = {
  a: { decl: 'a?: string', kind: 'val', lit: "'la'" },
  b: { decl: 'b?: number', kind: 'val', lit: '2' },
  q: { decl: "'q'?: string", kind: 'val', lit: "'lq'" },
  cd: { decl: "'c-d'?: string", kind: 'val', lit: "'lcd'", key: 'c-d' },
  d1: { decl: 'd1?: object', kind: 'val', lit: null },
  // numeric keys: `1`, `'1'` and `[1]` name the same property
  n1: { decl: '1?: string', kind: 'val', lit: "'l1'", key: '1' },
  n2: { decl: "'2'?: string", kind: 'val', lit: "'l2'", key: '2' },
  // declared through a getter signature (an accessor cannot be marked optional)
  g: { decl: 'get g(): string', kind: 'val', lit: "'lg'" },
  f: { decl: 'f?: () => number', kind: 'fn' },
  m: { decl: 'm?(): number', kind: 'fn' },
  // a union with null: Vue *does* call function defaults here (type is not exactly Function)
  fu: { decl: 'fu?: (() => number) | null', kind: 'fnUnion' },
};
const keyOf = (p) => PROPS[p].key || p;
const plainKey = (p) => (/^[A-Za-z_$][\w$]*$/.test(keyOf(p)) ? keyOf(p) : `'${keyOf(p)}'`);
// default entry forms: src(propKey) ; applicable kinds ; dynamic = not statically analysable
const FORMS = {
  absent: { src: () => null },
  literal: { kinds: ['val'], src: (p) => (PROPS[p].lit ? `${plainKey(p)}: ${PROPS[p].lit}` : undefined) },
  quotedKey: { kinds: ['val'], src: (p) => (PROPS[p].lit ? `'${keyOf(p)}': ${PROPS[p].lit}` : undefined) },
  computedLitKey: { kinds: ['val'], src: (p) => (PROPS[p].lit ? `['${keyOf(p)}']: ${PROPS[p].lit}` : undefined) },
  numericKey: { kinds: ['val'], only: ['n1', 'n2'], src: (p) => `${keyOf(p)}: ${PROPS[p].lit}` },
  computedNumKey: { kinds: ['val'], only: ['n1', 'n2'], src: (p) => `[${keyOf(p)}]: ${PROPS[p].lit}` },
  identExpr: { kinds: ['val'], src: (p) => `${plainKey(p)}: d1` },
  memberExpr: { kinds: ['val'], src: (p) => `${plainKey(p)}: uo.inheritAttrs` },
  call: { kinds: ['val'], src: (p) => `${plainKey(p)}: mkd()` },
  shorthand: { kinds: ['val'], only: ['d1'], src: () => 'd1' },
  getter: { kinds: ['val'], src: (p) => `get ${plainKey(p)}() { return d1; }` },
  fnIdent: { kinds: ['fn', 'fnUnion'], src: (p) => `${plainKey(p)}: dfn` },
  arrowValue: { kinds: ['fn', 'fnUnion'], src: (p) => `${plainKey(p)}: () => 7` },
  fnExprValue: { kinds: ['fn', 'fnUnion'], src: (p) => `${plainKey(p)}: function () { return 8; }` },
  method: { kinds: ['fn'], src: (p) => `${plainKey(p)}() { return 9; }` },
  computedMethod: { kinds: ['fn'], src: (p) => `['${keyOf(p)}']() { return 10; }` },
  asyncMethod: { kinds: ['fn'], src: (p) => `async ${plainKey(p)}() { return 11; }` },
  generatorMethod: { kinds: ['fn'], src: (p) => `*${plainKey(p)}() { yield 14; }` },
  asyncGeneratorMethod: { kinds: ['fn'], src: (p) => `async *${plainKey(p)}() { yield 15; }` },
  // a template literal without substitutions as computed key (statically known or not, the default is the same)
  templateKey: { kinds: ['val'], dynamic: true, src: (p) => (PROPS[p].lit ? `[\`${keyOf(p)}\`]: ${PROPS[p].lit}` : undefined) },
  templateKeyEscaped: { kinds: ['val'], dynamic: true, only: ['a', 'q'], src: (p) => (PROPS[p].lit ? `[\`\\u00${keyOf(p).charCodeAt(0).toString(16)}${keyOf(p).slice(1)}\`]: ${PROPS[p].lit}` : undefined) },
  computedIdentKey: { kinds: ['val'], dynamic: true, src: (p) => (PROPS[p].lit ? `[kn_${p}]: ${PROPS[p].lit}` : undefined) },
  computedExprKey: { kinds: ['val'], dynamic: true, src: (p) => (PROPS[p].lit ? `['${keyOf(p)}' + '']: ${PROPS[p].lit}` : undefined) },
};
const FORM_KEYS = Object.keys(FORMS);
const WHOLE = { none: null, ident: 'dflt', spread: '{ ...dflt }', call: 'mkDflt()', spreadPlus: "{ ...dflt, b: 5 }" };

const PRE = R.PRELUDE + "const kn_a = 'a', kn_b = 'b', kn_q = 'q', kn_cd = 'c-d', kn_n1 = 1, kn_n2 = '2', kn_g = 'g';\nconst dflt = __env.dflt;\nconst mkDflt = () => __env.dflt;\n";

function defaultsSrc(c) {
  if (c.whole && c.whole !== 'none') return WHOLE[c.whole];
  const parts = c.props.map((p, i) => FORMS[c.forms[i]].src(p)).filter((x) => x);
  if (c.extra) parts.push('zz: 1');
  return `{ ${parts.join(', ')} }`;
}
// the other spelling of a declared key (identifier <-> quoted, numeric <-> quoted)
function altDecl(p) { const d = PROPS[p].decl; const m = /^'([A-Za-z_$][\w$]*|\d+)'(\?.*)$/.exec(d); if (m) return m[1] + m[2]; const n = /^([A-Za-z_$][\w$]*|\d+)(\?.*)$/.exec(d); return n ? `'${n[1]}'${n[2]}` : d; }
function typeSrc(c) {
  const lit = `{ ${c.props.map((p) => PROPS[p].decl).join('; ')} }`;
  if (c.ty === 'twice') return `${lit} & { ${c.props.map(altDecl).join('; ')} }`; // every prop declared under both spellings
  if (c.ty === 'twiceRev') return `{ ${c.props.map(altDecl).join('; ')} } & ${lit}`;
  return lit;
}

// how the setup function is written around `props: T = D` (P) ; what another parameter's default is must not matter
const CTX_DEFAULT = "{ 1: 'ctx1', a: 'ctxa', b: 77, q: 'ctxq', 'c-d': 'ctxcd', g: 'ctxg', d1: d1, f: dfn, m: dfn, fu: dfn }";
const SETUPS = {
  arrow: (P) => `(${P}) => () => null`,
  fnExpr: (P) => `function (${P}) { return () => null; }`,
  fnNamed: (P) => `function setup(${P}, ctx: any) { return () => null; }`,
  arrowCtxDefault: (P) => `(${P}, ctx: any = ${CTX_DEFAULT}) => () => null`,
  arrowCtxDynDefault: (P) => `(${P}, { emit }: any = dflt) => () => null`,
  fnCtxDefault: (P) => `function (${P}, ctx: any = ${CTX_DEFAULT}) { return () => null; }`,
  asyncArrow: (P) => `async (${P}) => () => null`,
};
function render(c) {
  if (c.sp === 'Y') {
    const entry = c.form === 'shorthand' ? c.name : c.form === 'keyValue' ? `${c.name}: ${c.name}` : `${c.name}() { return ${c.name}; }`;
    const ty = c.form === 'method' ? `${c.name}?: () => object` : `${c.name}?: object`;
    return `${PRE}export const A = defineComponent((props: { a?: string } = dflt) => () => <i>{props.a}</i>);\nfunction make(${c.name}: any) {\n  // the helpers are used in this very scope, so the host's hygiene pass has to keep them apart from the parameter\n  const Inner = defineComponent((props: { q?: string } = dflt) => () => <b>{props.q}</b>);\n  return defineComponent((props: { ${ty} } = { ${entry} }) => () => <u />);\n}\nexport const C = make(d1);\n`;
  }
  if (c.sp === 'O') return `${PRE}export const C = defineComponent(${SETUPS[c.setup](`props: ${typeSrc(c)}`)});\n`;
  if (c.sp === 'L') {
    // leak: a component with static defaults, then one without a default sharing the prop names
    const t = typeSrc(c);
    const first = `export const A = defineComponent((props: ${t} = ${defaultsSrc(c)}) => () => null);`;
    const mid = c.mid === 'dynamic' ? `export const M = defineComponent((props: ${t} = dflt) => () => null);\n` : '';
    const second = `export const B = defineComponent((props: ${t}) => () => null);`;
    return `${PRE}${first}\n${mid}${second}\n`;
  }
  const d = defaultsSrc(c);
  return `${PRE}__out.W = () => (${d});\nexport const C = defineComponent(${SETUPS[c.setup || 'arrow'](`props: ${typeSrc(c)} = ${d}`)});\n`;
}
function requests(c) { return [{ src: render(c), ts: true, want: ['eval'], opts: JSON.stringify({ resolveType: true }) }]; }

function mkEnv() {
  const env = R.makeEnv();
  env.dflt = { a: 'da', b: 3, q: 'dq', 'c-d': 'dcd', 1: 'dn1', 2: 'dn2', g: 'dg', d1: { deep: 1 }, f: function df() { return 12; }, m: function dm() { return 13; } };
  env.vueOverride = undefined;
  return env;
}

// value Vue resolves for an absent prop
function resolved(opt) { return V.resolvePropValue(opt, {}, undefined); }
function show(v, names) {
  if (typeof v === 'function') { let r; try { r = v(); } catch (e) { r = { throws: e.name }; } if (r && typeof r.then === 'function') r = 'promise'; else if (r && typeof r[Symbol.asyncIterator] === 'function') r = 'async-generator'; else if (r && typeof r.next === 'function' && typeof r[Symbol.iterator] === 'function') r = { generatorYields: r.next().value }; return { fn: typeof r === 'function' ? { fnReturningFn: true } : canonValue(r, { names }, []) }; }
  if (v && typeof v.then === 'function') return 'promise';
  return canonValue(v, { names }, []);
}

function judge(c, resps) {
  const r = resps[0];
  if (r.parse_error) return { engineError: 'generated module does not parse: ' + r.parse_error + ' :: ' + render(c) };
  // a well-formed input of this space for which the transform panics or kills its process has no output that could satisfy the property
  if (r.panic || r.died) return { viol: [{ clause: 'transform-failed', diff: r.panic ? 'panic' : 'process-died', msg: r.panic ? `panic in ${r.panic.stage}: ${r.panic.msg}` : 'the transform killed its process' }], obs: 'transform-failed' };
  if (r.hang || !r.eval_js) return { skip: true };
  const env = mkEnv();
  const res = R.run(r.eval_js, env);
  if (res.load) return { viol: [{ clause: 'load', diff: 'exception', msg: res.load }], obs: 'load' };
  const names = new Names();
  const viol = [];
  const calls = res.calls.filter((x) => x.who === 'vue');
  if (c.sp === 'Y') {
    const call = calls[calls.length - 1];
    const opt = call && call.args[1] && call.args[1].props && call.args[1].props[c.name];
    const got = opt && Object.prototype.hasOwnProperty.call(opt, 'default') ? (c.form === 'method' ? opt.default() : resolved(opt)) : '«none»';
    if (got !== env.bound.d1) viol.push({ clause: 'default-value', diff: 'default:other-binding', msg: `the default refers to the local binding ${c.name}, but Vue resolves ${typeof got === 'function' ? 'a function (' + got.name + ')' : JSON.stringify(show(got, names))}`, observed: show(got, names) });
    return { viol, obs: 'Y:' + (got === env.bound.d1), clauses: ['default-value'] };
  }
  if (c.sp === 'O') {
    const props = (calls[0] && calls[0].args[1] && calls[0].args[1].props) || {};
    const leaked = c.props.filter((p) => props[keyOf(p)] && Object.prototype.hasOwnProperty.call(props[keyOf(p)], 'default'));
    if (leaked.length) viol.push({ clause: 'no-default-no-default', diff: 'default:from-another-parameter', msg: `the props parameter has no default, yet [${leaked}] got one (another parameter has a default)`, observed: leaked });
    if (/mergeDefaults/.test(r.printed || '')) viol.push({ clause: 'no-default-no-default', diff: 'mergeDefaults:used', msg: 'mergeDefaults is applied although the props parameter has no default', observed: r.printed });
    return { viol, obs: 'O:' + stable(leaked), clauses: ['no-default-no-default'] };
  }
  if (c.sp === 'L') {
    const last = calls[calls.length - 1];
    const props = (last && last.args[1] && last.args[1].props) || {};
    const leaked = c.props.filter((p) => props[keyOf(p)] && Object.prototype.hasOwnProperty.call(props[keyOf(p)], 'default'));
    if (leaked.length) viol.push({ clause: 'no-default-no-default', diff: 'default:present', msg: `component without a parameter default got defaults for [${leaked}]`, observed: leaked });
    return { viol, obs: stable(leaked), clauses: ['no-default-no-default'] };
  }
  const W = res.out.W();
  const props = (calls[0] && calls[0].args[1] && calls[0].args[1].props) || {};
  const obsAll = {};
  for (const p of c.props) {
    const k = keyOf(p);
    const has = Object.prototype.hasOwnProperty.call(W, k);
    const opt = props[k];
    // not statically analysable: "combined through Vue's mergeDefaults so that the same defaults apply" - what
    // applies is then Vue's own rule on the written value (a function default of a prop whose type is not exactly
    // Function is a factory for Vue, whoever wrote it)
    const dynamicCase = (c.whole && c.whole !== 'none') || c.forms.some((f) => FORMS[f].dynamic);
    const written = has ? (dynamicCase && opt ? resolved({ type: opt.type, default: W[k] }) : W[k]) : undefined;
    const expected = has ? show(written, names) : '«none»';
    let got;
    if (!opt) got = '«prop missing»';
    else {
      const hasDefault = opt !== null && typeof opt === 'object' && Object.prototype.hasOwnProperty.call(opt, 'default');
      got = hasDefault ? show(resolved(opt), names) : '«none»';
    }
    obsAll[k] = got;
    if (stable(expected) !== stable(got)) viol.push({ clause: 'default-value', diff: `default:${!has ? 'unexpected' : got === '«none»' ? 'lost' : 'different'}${PROPS[p].kind !== 'val' ? '(function prop)' : ''}`, msg: `prop ${k}: Vue resolves ${JSON.stringify(got)} but the written default is ${JSON.stringify(expected)}`, expected, observed: got });
  }
  const uniq = new Map();
  for (const v of viol) if (!uniq.has(v.clause + v.diff)) uniq.set(v.clause + v.diff, v);
  return { viol: [...uniq.values()], obs: stable(obsAll), clauses: ['default-value'] };
}

function applicable(p, f) {
  const F = FORMS[f];
  if (f === 'absent') return true;
  if (!F.kinds.includes(PROPS[p].kind)) return false;
  if (F.only && !F.only.includes(p)) return false;
  return F.src(p) !== undefined;
}

function* propSets(max) {
  const keys = Object.keys(PROPS);
  const rec = function* (start, acc) { if (acc.length) yield acc.slice(); if (acc.length === max) return; for (let i = start; i < keys.length; i++) { acc.push(keys[i]); yield* rec(i + 1, acc); acc.pop(); } };
  yield* rec(0, []);
}

function spaces(tier) {
  const deep = tier === 'thorough';
  const thorough = true; // cheap: the quick tier explores the former thorough space
  return [
    {
      name: 'D:maps×default-objects',
      bounds: { props: Object.keys(PROPS).map((p) => PROPS[p].decl), max_props: deep ? 4 : 3, forms: FORM_KEYS, extra_key: [false, true] },
      *gen() {
        for (const props of propSets(deep ? 4 : 3)) {
          // at four props only the static / dynamic extremes of each prop's forms (the full product is covered up to three)
          const choices = props.map((p) => FORM_KEYS.filter((f) => applicable(p, f))).map((fs) => (props.length === 4 ? fs.filter((f, i) => i < 2 || FORMS[f].dynamic || i === fs.length - 1) : fs));
          for (const forms of product(choices)) for (const extra of [false, true]) {
            if (forms.every((f) => f === 'absent') && !extra && props.length > 1) continue;
            yield { sp: 'D', props, forms, extra };
          }
        }
      },
    },
    {
      name: 'W:whole-default-dynamic',
      bounds: { forms: Object.keys(WHOLE).filter((k) => k !== 'none') },
      *gen() { for (const props of propSets(3)) for (const whole of Object.keys(WHOLE)) if (whole !== 'none') yield { sp: 'D', props, forms: props.map(() => 'absent'), whole }; },
    },
    {
      name: 'F:setup-forms',
      bounds: { setups: Object.keys(SETUPS), note: 'the same defaults under every way of writing the setup function, incl. a second parameter that has a default of its own (static or dynamic); and (O) only the other parameter has a default' },
      *gen() {
        const canon = (p) => (PROPS[p].kind === 'fn' ? 'method' : PROPS[p].kind === 'fnUnion' ? 'fnIdent' : PROPS[p].lit ? 'literal' : 'identExpr');
        for (const props of propSets(2)) for (const setup of Object.keys(SETUPS)) {
          if (setup !== 'arrow') {
            yield { sp: 'D', props, forms: props.map(canon), extra: false, setup };
            yield { sp: 'D', props, forms: props.map((p, i) => (i === 0 ? canon(p) : 'absent')), extra: false, setup };
            for (const whole of ['ident', 'spread']) yield { sp: 'D', props, forms: props.map(() => 'absent'), whole, setup };
          }
          yield { sp: 'O', props, forms: props.map(() => 'absent'), setup };
        }
        // every prop declared under two spellings (intersection): each declaration gets the default
        for (const props of propSets(2)) for (const ty of ['twice', 'twiceRev']) { yield { sp: 'D', props, forms: props.map(canon), extra: false, ty }; yield { sp: 'D', props, forms: props.map((p) => (FORMS.quotedKey.src(p) && PROPS[p].kind === 'val' ? 'quotedKey' : canon(p))), extra: false, ty }; }
        // hygiene: a default that refers to a local binding named like a helper the transform imports
        for (const name of ['_mergeDefaults', '_createVNode']) for (const form of ['shorthand', 'keyValue', 'method']) yield { sp: 'Y', name, form };
      },
    },
    {
      name: 'L:two-components',
      bounds: { note: 'a component with static defaults followed (optionally after one with a dynamic default) by a component without any default that shares the prop names' },
      *gen() { for (const props of propSets(2)) for (const mid of ['none', 'dynamic']) { const forms = props.map((p) => (PROPS[p].kind === 'fn' ? 'method' : PROPS[p].kind === 'fnUnion' ? 'fnIdent' : PROPS[p].lit ? 'literal' : 'identExpr')); yield { sp: 'L', props, forms, mid }; } },
    },
  ];
}

function* shrink(c) {
  if (c.sp === 'Y') return;
  if (c.ty) yield Object.assign({}, c, { ty: undefined });
  if (c.setup && c.setup !== 'arrow') yield Object.assign({}, c, { setup: 'arrow' });
  if (c.sp === 'O') { for (let i = 0; i < c.props.length; i++) if (c.props.length > 1) yield Object.assign({}, c, { props: c.props.slice(0, i).concat(c.props.slice(i + 1)), forms: c.forms.slice(1) }); return; }
  if (c.sp === 'L') { if (c.mid !== 'none') yield Object.assign({}, c, { mid: 'none' }); for (let i = 0; i < c.props.length; i++) if (c.props.length > 1) yield Object.assign({}, c, { props: c.props.slice(0, i).concat(c.props.slice(i + 1)), forms: c.forms.slice(0, i).concat(c.forms.slice(i + 1)) }); return; }
  for (let i = 0; i < c.props.length; i++) if (c.props.length > 1) yield Object.assign({}, c, { props: c.props.slice(0, i).concat(c.props.slice(i + 1)), forms: c.forms.slice(0, i).concat(c.forms.slice(i + 1)) });
  if (c.extra) yield Object.assign({}, c, { extra: false });
  for (let i = 0; i < c.forms.length; i++) if (c.forms[i] !== 'absent') yield Object.assign({}, c, { forms: c.forms.slice(0, i).concat(['absent'], c.forms.slice(i + 1)) });
  for (let i = 0; i < c.props.length; i++) { const alt = PROPS[c.props[i]].kind === 'fn' ? 'f' : PROPS[c.props[i]].kind === 'fnUnion' ? 'fu' : 'a'; if (c.props[i] !== alt && !c.props.includes(alt) && applicable(alt, c.forms[i])) yield Object.assign({}, c, { props: c.props.slice(0, i).concat([alt], c.props.slice(i + 1)) }); }
}

module.exports = {
  id: 'C18',
  level: 'model_checking',
  rule: 'complete product prop map (≤2, thorough ≤3, of plain / quoted / hyphenated / function-typed / method props) × per-prop default entry form (absent, literal, quoted key, computed-literal key, identifier, member, call, shorthand, getter, function identifier, arrow value, function expression, method, computed-literal method, async method, computed identifier key, computed expression key) × extra key, plus whole-default dynamic forms (identifier, spread, call, spread + static) and two-component modules; each state is transformed by the real visitor with resolveType on and executed: the harness evaluates the written default object W itself, and for every prop the value Vue\'s resolvePropValue algorithm yields from the emitted props option (factories called iff Vue would call them; the emitted mergeDefaults call evaluated with the transcribed algorithm) must equal W[k] (functions compared by result; props without a written default have none). Distinct = distinct resolved-default vectors.',
  assumptions: ['Vue resolvePropValue / mergeDefaults transcribed in the mock runtime', 'defaults generated well-typed (function-valued defaults only for function-typed props)', 'SWC TypeScript parser; TS eraser of the driver'],
  spaces, requests, judge, shrink,
  caseKey: (c) => (c.sp === 'Y' ? `Y:local ${c.name} as ${c.form} default` : c.sp === 'O' ? `O:${SETUPS[c.setup]('props: ' + typeSrc(c))}` : c.sp === 'L' ? `L:${typeSrc(c)} = ${defaultsSrc(c)} ; ${c.mid === 'dynamic' ? 'dynamic ; ' : ''}none` : `D:${typeSrc(c)} = ${defaultsSrc(c)}${c.setup && c.setup !== 'arrow' ? ' in ' + c.setup : ''}`),
  depth: (c) => (c.sp === 'Y' ? 2 : c.props.length + c.forms.filter((f) => f !== 'absent').length),
};
