'use strict';
// C06 — every name the transform introduces is bound, in scope, and initialised.
const H = require('../lib/hspace');
const G = require('../lib/hgen');
const { stable } = require('../lib/canon');

const OPTS = JSON.stringify({ transformOn: true, optimize: false });
const USER_VALUES = { userSlot: 'user_slot', userIsSlot: 'user_isSlot', userCreateVNode: 'user_createVNode', userFragment: 'user_Fragment', userIsVNode: 'user_isVNode' };

function requests(c) { if (c.ts) return [{ src: H.renderHistory(c.items, true), ts: true, want: ['eval', 'free', 'gen'], opts: JSON.stringify({ transformOn: true, resolveType: true }) }]; return [{ src: H.renderHistory(c.items), want: ['eval', 'free', 'gen'], opts: c.noeos ? JSON.stringify({ transformOn: true, optimize: true, enableObjectSlots: false, mergeProps: false }) : c.pragma ? JSON.stringify({ transformOn: true, optimize: false, pragma: 'hh' }) : OPTS }]; }

function findThrows(v, path, out) {
  if (v && typeof v === 'object') {
    if (typeof v.throws === 'string') out.push({ path, name: v.throws, msg: v.msg });
    else if (Array.isArray(v)) v.forEach((x, i) => findThrows(x, `${path}[${i}]`, out));
    else for (const k of Object.keys(v)) findThrows(v[k], `${path}.${k}`, out);
  }
}

function judge(c, resps) {
  const r = resps[0];
  if (r.parse_error) return { engineError: 'generated history does not parse: ' + r.parse_error };
  if (r.panic || r.died || r.hang || !r.eval_js) return { skip: true };
  // a history with an item for which the transform *must* report an error (await / yield in slot content) has no output program to judge once it did
  if ((r.diags || []).some((d) => d.level === 'error') && c.items && c.items.some((it) => it.d && H.D[it.d].diag)) return { skip: true };
  const viol = [];
  // static: no new free variables (identity = name + syntax context after re-resolution of the printed output)
  if (Array.isArray(r.free_out)) {
    const fin = new Set(r.free_in || []);
    if (c.pragma) fin.add('hh'); // "plus a configured pragma"
    if (c.ts) for (const n of ['String', 'Number', 'Boolean', 'Object', 'Function', 'Array', 'Promise', 'Date', 'BigInt', 'Symbol']) fin.add(n); // runtime constructors derived from types
    const extra = r.free_out.filter((n) => !fin.has(n));
    if (extra.length) viol.push({ clause: 'free-vars', diff: 'free:' + extra.map((n) => n.replace(/\d+$/, '')).sort().join(','), msg: `output has free variables the input does not have: ${extra.join(', ')}`, expected: r.free_in, observed: r.free_out });
  } else viol.push({ clause: 'free-vars', diff: 'reparse-failed', msg: 'printed output could not be re-parsed for scope analysis' });
  // static: everything imported or declared by the transform is used
  for (const g of r.gen || []) if (g.refs === 0) viol.push({ clause: 'unused-generated', diff: 'unused:' + g.name.replace(/\d+$/, ''), msg: `generated ${g.kind} binding ${g.name} is never referenced` });
  // dynamic: load, activate every context twice, invoke slots
  const o = H.observe(r.eval_js, c.items.length);
  if (o.load) viol.push({ clause: 'load', diff: 'exception:' + o.loadName, msg: o.load });
  else {
    c.items.forEach((it, i) => {
      const th = [];
      findThrows(o.values[i], '', th);
      for (const t of th) viol.push({ clause: 'activate', diff: 'exception:' + t.name, msg: `item ${i} (${H.itemKey(it)}): ${t.name} ${t.msg || ''} at ${t.path}` });
      if (it.d && USER_VALUES[it.d] !== undefined) {
        const got = o.values[i];
        if (stable(got) !== stable([USER_VALUES[it.d], USER_VALUES[it.d]])) viol.push({ clause: 'user-binding', diff: 'user-value:changed', msg: `user binding of ${it.d} no longer has its own value`, expected: USER_VALUES[it.d], observed: got });
      }
      if (it.d === 'userEvent') {
        const fired = o.values[i][2];
        if (!fired || fired.fired !== 'NEWEVENT') viol.push({ clause: 'user-binding', diff: 'user-event:not-assigned', msg: 'the generated listener does not assign the user variable named $event', expected: 'NEWEVENT', observed: fired });
      }
    });
  }
  const uniq = new Map();
  for (const v of viol) if (!uniq.has(v.clause + v.diff)) uniq.set(v.clause + v.diff, v);
  return { viol: [...uniq.values()], obs: stable([o.load ? o.loadName : o.values, (r.gen || []).map((g) => g.name)]), clauses: ['free-vars', 'unused-generated', 'load', 'activate', 'user-binding'] };
}

module.exports = {
  id: 'C06',
  level: 'model_checking',
  rule: 'explicit-state BFS over module-item histories (item = syntactic context ∘ lowering that needs a helper/temporary, distractor incl. user declarations with colliding names and user imports from vue, statement-level self-assignment forms); every history is transformed by the real visitor and judged statically (free variables of the re-parsed, re-resolved output ⊆ those of the input; every generated binding referenced) and dynamically (module loaded, every context activated twice, slots invoked: no ReferenceError/TypeError, colliding user bindings keep their values, the v-model listener assigns the user\'s $event). Distinct = distinct (observation vector, generated-binding list).',
  assumptions: ['SWC resolver for the scope analysis of the re-parsed output', 'span criterion for "generated"', 'mock Vue runtime and node evaluator (strict mode, as ES modules are)'],
  prepare: async (tier) => (tier === 'thorough' ? G.skeleton(3, OPTS) : null),
  spaces: (tier, prepared) => G.spaces(tier, (items) => ({ items })).concat(tier === 'thorough' ? [G.canonicalSpace(prepared, (items) => ({ items }))] : []).concat([{
    name: 'O:objectSlots-off-mergeProps-off-optimize',
    bounds: { note: 'every item alone and core pairs under enableObjectSlots=false, mergeProps=false, optimize=true (helpers that are only needed under the defaults must not be declared)' },
    *gen() { for (const it of G.ALL) yield { items: [it], noeos: true }; for (const a of G.CORE) for (const b of G.CORE) if (G.onceOk([a, b])) yield { items: [a, b], noeos: true }; },
  }, {
    name: 'T:tsx-resolveType',
    bounds: { note: '.tsx modules with resolveType on: every TS item alone and every ordered pair of TS items (derived props/emits helpers such as mergeDefaults must be used)', items: Object.keys(H.T) },
    *gen() { const T = Object.keys(H.T).map((t) => ({ t })); for (const a of T) yield { items: [a], ts: true }; for (const a of T) for (const b of T) yield { items: [a, b], ts: true }; for (const a of T) for (const b of G.CORE) if (!(b.d && b.d === 'importFragmentAlias')) yield { items: [a, b], ts: true }; },
  }, {
    name: 'P:pragma-configured',
    bounds: { note: 'pragma option set (vnode calls go to a global stub, createVNode is not imported): all items alone, core pairs', max_length: 2 },
    *gen() {
      for (const it of G.ALL) yield { items: [it], pragma: true };
      for (const a of G.CORE) for (const b of G.CORE) if (G.onceOk([a, b])) yield { items: [a, b], pragma: true };
    },
  }]),
  requests, judge,
  *shrink(c) { for (const items of G.shrinkItems(c.items)) if (items.length) yield { items, pragma: c.pragma, ts: c.ts, noeos: c.noeos }; if (c.pragma || c.noeos) yield { items: c.items }; },
  caseKey: (c) => G.key(c.items) + (c.pragma ? ' {pragma}' : '') + (c.ts ? ' {tsx resolveType}' : '') + (c.noeos ? ' {eos=off mergeProps=off optimize}' : ''),
  depth: (c) => c.items.length,
};
