'use strict';
// C17 — inferred runtime prop types accept every value of the declared TS type.
const R = require('../lib/rspace');
const V = require('../lib/vue');
const { stable } = require('../lib/canon');

const NOCHECK = '«no check»';
// atoms: src, ctors (constructor names; 'null' = the null value; NOCHECK), sample inhabitants (thunks: symbols/bigints are not JSON)
const ATOMS = {
  string: { src: 'string', ctors: ['String'], samples: () => ['s', ''] },
  number: { src: 'number', ctors: ['Number'], samples: () => [1, 0] },
  boolean: { src: 'boolean', ctors: ['Boolean'], samples: () => [true, false] },
  object: { src: 'object', ctors: ['Object'], samples: () => [{}, []] },
  bigint: { src: 'bigint', ctors: ['BigInt'], samples: () => [10n] },
  symbol: { src: 'symbol', ctors: ['Symbol'], samples: () => [Symbol('s')] },
  strLit: { src: "'lit'", ctors: ['String'], samples: () => ['lit'] },
  numLit: { src: '1', ctors: ['Number'], samples: () => [1] },
  boolLit: { src: 'true', ctors: ['Boolean'], samples: () => [true] },
  bigLit: { src: '10n', ctors: ['BigInt'], samples: () => [10n] },
  tplLit: { src: '`a${string}`', ctors: ['String'], samples: () => ['ab'] },
  fn: { src: '(() => void)', ctors: ['Function'], samples: () => [() => {}] },
  ctor: { src: '(new () => Date)', ctors: ['Function'], samples: () => [Date] },
  arr: { src: 'string[]', ctors: ['Array'], samples: () => [['a']] },
  tuple: { src: '[string, number]', ctors: ['Array'], samples: () => [['a', 1]] },
  arrGeneric: { src: 'Array<number>', ctors: ['Array'], samples: () => [[1]] },
  objLit: { src: '{ x: number }', ctors: ['Object'], samples: () => [{ x: 1 }] },
  emptyObj: { src: '{}', ctors: ['Object'], samples: () => [{}] },
  objMethods: { src: '{ get(): string; set(v: string): void }', ctors: ['Object'], samples: () => [{ get() { return 's'; }, set() {} }] },
  ifaceMethods: { src: 'IMeth', ctors: ['Object'], samples: () => [{ commit() {} }], pre: 'interface IMeth { commit(name: string): void }' },
  // interfaces without members of their own: any object; what they inherit counts (a callable parent makes them callable)
  emptyIface: { src: 'IEmpty', ctors: ['Object'], samples: () => [{}, { a: 1 }], pre: 'interface IEmpty {}' },
  extOnlyIface: { src: 'IExtOnly', ctors: ['Object'], samples: () => [{ x: 1 }], pre: 'interface IBaseO { x: number }\ninterface IExtOnly extends IBaseO {}' },
  extCallIface: { src: 'IExtCall', ctors: ['Function'], samples: () => [() => {}], pre: 'interface IBaseF { (): void }\ninterface IExtCall extends IBaseF {}' },
  // callable object types with members of their own: every inhabitant is a function (with properties); judged on acceptance only
  extCallOwnIface: { src: 'INamedH', loose: true, ctors: ['Function', 'Object'], samples: () => [Object.assign(() => {}, { label: 'l' })], pre: 'interface IBaseH { (e: string): void }\ninterface INamedH extends IBaseH { label: string }' },
  extCallDeepIface: { src: 'ILeafH', loose: true, ctors: ['Function', 'Object'], samples: () => [Object.assign(() => {}, { label: 'l', n: 1 })], pre: 'interface IRootH { (): void }\ninterface IMidH extends IRootH { n: number }\ninterface ILeafH extends IMidH { label: string }' },
  extCtorOwnIface: { src: 'INamedK', loose: true, ctors: ['Function', 'Object'], samples: () => [Object.assign(function K() {}, { label: 'l' })], pre: 'interface IBaseK { new (): Date }\ninterface INamedK extends IBaseK { label: string }' },
  callSigOwn: { src: '{ (): void; label: string }', loose: true, ctors: ['Function', 'Object'], samples: () => [Object.assign(() => {}, { label: 'l' })] },
  callSig: { src: '{ (): void }', ctors: ['Function'], samples: () => [() => {}] },
  iface: { src: 'IObj', ctors: ['Object'], samples: () => [{ y: 's' }], pre: 'interface IObj { y: string }' },
  ifaceFn: { src: 'IFn', ctors: ['Function'], samples: () => [() => {}], pre: 'interface IFn { (): void }' },
  Date: { src: 'Date', ctors: ['Date'], samples: () => [new Date(0)] },
  Map: { src: 'Map<string, number>', ctors: ['Map'], samples: () => [new Map()] },
  Set: { src: 'Set<string>', ctors: ['Set'], samples: () => [new Set()] },
  Promise: { src: 'Promise<void>', ctors: ['Promise'], samples: () => [Promise.resolve()] },
  RegExp: { src: 'RegExp', ctors: ['RegExp'], samples: () => [/x/] },
  Error: { src: 'Error', ctors: ['Error'], samples: () => [new Error('e')] },
  WeakMap: { src: 'WeakMap<object, string>', ctors: ['WeakMap'], samples: () => [new WeakMap()] },
  WeakSet: { src: 'WeakSet<object>', ctors: ['WeakSet'], samples: () => [new WeakSet()] },
  Function: { src: 'Function', ctors: ['Function'], samples: () => [function () {}] },
  Object: { src: 'Object', ctors: ['Object'], samples: () => [{}] },
  any: { src: 'any', ctors: [NOCHECK], samples: () => [1, 's', {}, null, () => 1] },
  unknown: { src: 'unknown', ctors: [NOCHECK], samples: () => [1, 's', {}, null] },
  nul: { src: 'null', ctors: ['null'], samples: () => [null] },
  partial: { src: 'Partial<{ x: number }>', ctors: ['Object'], samples: () => [{}] },
  record: { src: 'Record<string, number>', ctors: ['Object'], samples: () => [{ a: 1 }] },
  readonlyObj: { src: 'Readonly<{ x: number }>', ctors: ['Object'], samples: () => [{ x: 1 }] },
  pick: { src: "Pick<{ x: number; y: string }, 'x'>", ctors: ['Object'], samples: () => [{ x: 1 }] },
  upper: { src: "Uppercase<'a'>", ctors: ['String'], samples: () => ['A'] },
  params: { src: 'Parameters<(a: string) => void>', ctors: ['Array'], samples: () => [['a']] },
};
const ATOM_KEYS = Object.keys(ATOMS);
const CORE_ATOMS = ['string', 'boolean', 'number', 'strLit', 'bigLit', 'fn', 'arr', 'tuple', 'objLit', 'iface', 'Date', 'any', 'nul', 'emptyObj', 'emptyIface'];

// terms: {a: atomKey} | {op, args: [term…]}
const OPS = {
  union: { arity: 2, src: (s) => `${s[0]} | ${s[1]}`, ctors: (c) => c[0].concat(c[1]), samples: (x) => x[0].concat(x[1]) },
  unionRev: { arity: 2, src: (s) => `${s[1]} | ${s[0]}`, ctors: (c) => c[1].concat(c[0]), samples: (x) => x[0].concat(x[1]) },
  inter: { arity: 2, only: ['objLit', 'iface', 'partial', 'record'], src: (s) => `${s[0]} & ${s[1]}`, ctors: (c) => c[0].concat(c[1]), samples: (x) => [{ x: 1, y: 's', a: 1 }] },
  alias: { arity: 1, decl: (n, s) => `type ${n} = ${s[0]};`, ref: true, ctors: (c) => c[0], samples: (x) => x[0] },
  alias2: { arity: 1, decl: (n, s) => `type ${n}x = ${s[0]};\ntype ${n} = ${n}x;`, ref: true, ctors: (c) => c[0], samples: (x) => x[0] },
  // a type of this module that is named like a global class is still this module's type
  aliasNamedError: { arity: 1, decl: (n, s) => `type Error = ${s[0]};`, src: () => 'Error', ctors: (c) => c[0], samples: (x) => x[0], once: 'Error' },
  aliasNamedDate: { arity: 1, decl: (n, s) => `type Date = ${s[0]} | null;`, src: () => 'Date', ctors: (c) => c[0].concat(['null']), samples: (x) => x[0].concat([null]), once: 'Date' },
  ifaceNamedMap: { arity: 1, decl: (n, s) => `interface Map { k: ${s[0]} }`, src: () => "Map['k']", ctors: (c) => c[0], samples: (x) => x[0], once: 'Map' },
  aliasNamedPromise: { arity: 1, decl: (n, s) => `type Promise = { p: ${s[0]} };`, src: () => "Promise['p']", ctors: (c) => c[0], samples: (x) => x[0], once: 'Promise' },
  paren: { arity: 1, src: (s) => `(${s[0]})`, ctors: (c) => c[0], samples: (x) => x[0] },
  nonNull: { arity: 1, src: (s) => `NonNullable<${s[0]}>`, ctors: (c) => c[0].filter((k) => k !== 'null'), samples: (x) => x[0].filter((v) => v !== null) },
  nullFirst3: { arity: 2, src: (s) => `null | ${s[0]} | ${s[1]}`, ctors: (c) => ['null'].concat(c[0], c[1]), samples: (x) => [null].concat(x[0], x[1]) },
  nullMid3: { arity: 2, src: (s) => `${s[0]} | undefined | ${s[1]} | null`, ctors: (c) => c[0].concat(c[1], ['null']), samples: (x) => x[0].concat(x[1], [null]) },
  orNull: { arity: 1, src: (s) => `${s[0]} | null`, ctors: (c) => c[0].concat(['null']), samples: (x) => x[0].concat([null]) },
  arrElem: { arity: 1, decl: (n, s) => `type ${n} = (${s[0]})[];`, src: (s, n) => `${n}[number]`, ctors: (c) => c[0], samples: (x) => x[0] },
  tupleElem0: { arity: 2, decl: (n, s) => `type ${n} = [${s[0]}, ${s[1]}];`, src: (s, n) => `${n}[0]`, ctors: (c) => c[0], samples: (x) => x[0] },
  tupleElemN: { arity: 2, decl: (n, s) => `type ${n} = [${s[0]}, ${s[1]}];`, src: (s, n) => `${n}[number]`, ctors: (c) => c[0].concat(c[1]), samples: (x) => x[0].concat(x[1]) },
  objElem: { arity: 1, decl: (n, s) => `type ${n} = { k: ${s[0]}; other: symbol };`, src: (s, n) => `${n}['k']`, ctors: (c) => c[0], samples: (x) => x[0] },
  ifaceElem: { arity: 1, decl: (n, s) => `interface ${n} { k: ${s[0]}; other: symbol }`, src: (s, n) => `${n}['k']`, ctors: (c) => c[0], samples: (x) => x[0] },
  // further indexed-access forms: `string` index and union keys select several members, a method member is a function,
  // Array<T>[number], an optional tuple element, a key given through an alias
  objElemString: { arity: 2, decl: (n, s) => `type ${n} = { k: ${s[0]}; j: ${s[1]} };`, src: (s, n) => `${n}[string]`, ctors: (c) => c[0].concat(c[1]), samples: (x) => x[0].concat(x[1]) },
  objElemUnionKey: { arity: 2, decl: (n, s) => `type ${n} = { k: ${s[0]}; 'j-2': ${s[1]}; other: symbol };`, src: (s, n) => `${n}['k' | 'j-2']`, ctors: (c) => c[0].concat(c[1]), samples: (x) => x[0].concat(x[1]) },
  ifaceElemUnionKey: { arity: 2, decl: (n, s) => `interface ${n} { k: ${s[0]}; j: ${s[1]}; other: symbol }\ntype ${n}K = 'k' | 'j';`, src: (s, n) => `${n}[${n}K]`, ctors: (c) => c[0].concat(c[1]), samples: (x) => x[0].concat(x[1]) },
  ifaceElemString: { arity: 2, decl: (n, s) => `interface ${n} { k: ${s[0]}; j?: ${s[1]} }`, src: (s, n) => `${n}[string]`, ctors: (c) => c[0].concat(c[1]), samples: (x) => x[0].concat(x[1]) },
  methodElem: { arity: 1, decl: (n, s) => `type ${n} = { m(): void; k: ${s[0]} };`, src: (s, n) => `${n}['m' | 'k']`, ctors: (c) => ['Function'].concat(c[0]), samples: (x) => [() => {}].concat(x[0]) },
  // the indexed member is inherited from a parent interface (one / two levels up); an own declaration wins over the parent's
  ifaceElemInherited: { arity: 1, decl: (n, s) => `interface ${n}b { k: ${s[0]}; other: symbol }\ninterface ${n} extends ${n}b { own: symbol }`, src: (s, n) => `${n}['k']`, ctors: (c) => c[0], samples: (x) => x[0] },
  ifaceElemInherited2: { arity: 1, decl: (n, s) => `interface ${n}r { k: ${s[0]} }\ninterface ${n}b extends ${n}r { other: symbol }\ninterface ${n} extends ${n}b {}`, src: (s, n) => `${n}["k"]`, ctors: (c) => c[0], samples: (x) => x[0] },
  ifaceElemOverride: { arity: 1, decl: (n, s) => `interface ${n}b { k: ${s[0]} | symbol; other: symbol }\ninterface ${n} extends ${n}b { k: ${s[0]} }`, src: (s, n) => `${n}['k']`, ctors: (c) => c[0], samples: (x) => x[0] },
  ifaceMethodElem: { arity: 1, decl: (n, s) => `interface ${n} { m(): void; get k(): ${s[0]} }`, src: (s, n) => `${n}['m' | 'k']`, ctors: (c) => ['Function'].concat(c[0]), samples: (x) => [() => {}].concat(x[0]) },
  arrayGenericElem: { arity: 1, src: (s) => `Array<${s[0]}>[number]`, ctors: (c) => c[0], samples: (x) => x[0] },
  // a trailing rest element holds values of its element type: under [number], and under a literal index at or past its position
  tupleRestN: { arity: 2, decl: (n, s) => `type ${n} = [${s[0]}, ...(${s[1]})[]];`, src: (s, n) => `${n}[number]`, ctors: (c) => c[0].concat(c[1]), samples: (x) => x[0].concat(x[1]) },
  tupleRestGenericN: { arity: 2, decl: (n, s) => `type ${n} = [${s[0]}, ...Array<${s[1]}>];`, src: (s, n) => `${n}[number]`, ctors: (c) => c[0].concat(c[1]), samples: (x) => x[0].concat(x[1]) },
  tupleRestAt: { arity: 2, decl: (n, s) => `type ${n} = [${s[0]}, ...(${s[1]})[]];`, src: (s, n) => `${n}[1]`, ctors: (c) => c[1], samples: (x) => x[1] },
  tupleRestPast: { arity: 2, decl: (n, s) => `type ${n} = [${s[0]}, ...(${s[1]})[]];`, src: (s, n) => `${n}[3]`, ctors: (c) => c[1], samples: (x) => x[1] },
  tupleOptElem: { arity: 2, decl: (n, s) => `type ${n} = [${s[0]}, (${s[1]})?];`, src: (s, n) => `${n}[number]`, ctors: (c) => c[0].concat(c[1]), samples: (x) => x[0].concat(x[1]) },
  // an indexed access whose object is itself an indexed access; the two indices differ and the member under the other index is a symbol
  chainTuple01: { arity: 2, decl: (n, s) => `type ${n} = [[symbol, ${s[0]}], [${s[1]}, symbol]];`, src: (s, n) => `${n}[0][1]`, ctors: (c) => c[0], samples: (x) => x[0] },
  chainTuple10: { arity: 2, decl: (n, s) => `type ${n} = [[symbol, ${s[0]}], [${s[1]}, symbol]];`, src: (s, n) => `${n}[1][0]`, ctors: (c) => c[1], samples: (x) => x[1] },
  chainObj: { arity: 1, decl: (n, s) => `type ${n} = { a: { a: symbol; b: ${s[0]} }; b: symbol };`, src: (s, n) => `${n}['a']['b']`, ctors: (c) => c[0], samples: (x) => x[0] },
  chainIface: { arity: 1, decl: (n, s) => `interface ${n}i { a: symbol; b: ${s[0]} }\ninterface ${n} { a: ${n}i; b: symbol }`, src: (s, n) => `${n}['a']['b']`, ctors: (c) => c[0], samples: (x) => x[0] },
  chainParen: { arity: 1, decl: (n, s) => `type ${n} = { a: { b: ${s[0]} }; b: symbol };`, src: (s, n) => `(${n}['a'])['b']`, ctors: (c) => c[0], samples: (x) => x[0] },
  chainAlias: { arity: 1, decl: (n, s) => `type ${n} = { a: { a: symbol; b: ${s[0]} }; b: symbol };\ntype ${n}a = ${n}['a'];`, src: (s, n) => `${n}a['b']`, ctors: (c) => c[0], samples: (x) => x[0] },
  chainObjTuple: { arity: 1, decl: (n, s) => `type ${n} = { a: [${s[0]}, symbol]; 0: symbol };`, src: (s, n) => `${n}['a'][0]`, ctors: (c) => c[0], samples: (x) => x[0] },
  chainTupleObj: { arity: 1, decl: (n, s) => `type ${n} = [symbol, { k: ${s[0]}; 1: symbol }];`, src: (s, n) => `${n}[1]['k']`, ctors: (c) => c[0], samples: (x) => x[0] },
  chainObjArr: { arity: 1, decl: (n, s) => `type ${n} = { a: (${s[0]})[]; b: symbol };`, src: (s, n) => `${n}['a'][number]`, ctors: (c) => c[0], samples: (x) => x[0] },
  chain3: { arity: 1, decl: (n, s) => `type ${n} = { a: { b: { c: ${s[0]}; a: symbol }; c: symbol }; b: symbol; c: symbol };`, src: (s, n) => `${n}['a']['b']['c']`, ctors: (c) => c[0], samples: (x) => x[0] },
  // conservative wrappers: the statement gives "the union of their parts"; only the inhabitants clause is judged
  exclude: { arity: 2, loose: true, src: (s) => `Exclude<${s[0]} | ${s[1]}, ${s[1]}>`, ctors: (c) => c[0].concat(c[1]), samples: (x) => x[0] },
  extract: { arity: 2, loose: true, src: (s) => `Extract<${s[0]} | ${s[1]}, ${s[0]}>`, ctors: (c) => c[0].concat(c[1]), samples: (x) => x[0] },
};
const SCOPES = ['fnDecl', 'arrow', 'fnExpr', 'method', 'iife', 'classMethod'];
// other uses of a shared alias T1 (some cannot be resolved; what they yield is not judged)
const PROBES = { none: null, same: 'T1', length: "T1['length']", number: 'T1[number]', key: "T1['k']", missing: "T1['missing']", partialKey: "Partial<T1>['k']", arrayOf: 'T1[]', union: 'T1 | T0', keyofT: 'keyof T1' };
const UNARY = Object.keys(OPS).filter((k) => OPS[k].arity === 1);
const BINARY = Object.keys(OPS).filter((k) => OPS[k].arity === 2);

function build(term, st) {
  if (term.a) { const a = ATOMS[term.a]; if (a.pre) st.pre.add(a.pre); return { src: a.src, ctors: a.ctors.slice(), samples: a.samples(), loose: !!a.loose }; }
  const op = OPS[term.op];
  const parts = term.args.map((t) => build(t, st));
  const n = `T${st.n++}`;
  const srcs = parts.map((p) => p.src);
  if (op.decl) st.decls.push(op.decl(n, srcs));
  const src = op.ref ? n : op.src(srcs, n);
  return { src, ctors: op.ctors(parts.map((p) => p.ctors)), samples: op.samples(parts.map((p) => p.samples)), loose: !!op.loose || parts.some((p) => p.loose) };
}
// a module that declares its own `Date` / `Error` / … cannot also mean the global of that name
function validTerm(t) {
  const once = [], atoms = [];
  (function walk(u) { if (u.a) { atoms.push(u.a); return; } if (OPS[u.op].once) once.push(OPS[u.op].once); u.args.forEach(walk); })(t);
  return new Set(once).size === once.length && !once.some((n) => atoms.includes(n));
}
function termKey(t) { return t.a ? t.a : `${t.op}(${t.args.map(termKey).join(',')})`; }

function render(c) {
  const st = { n: 0, decls: [], pre: new Set() };
  const b = build(c.t, st);
  return { src: `${R.PRELUDE}${[...st.pre].join('\n')}\n${st.decls.join('\n')}\nexport const C = defineComponent((props: { p: ${b.src} }) => () => null);\n`, b };
}
// two components whose prop types use a same-named alias declared in different scopes
function renderScoped(c) {
  const st = { n: 0, decls: [], pre: new Set() };
  const a = build({ a: c.x }, st), b = build({ a: c.y }, st);
  const outer = `type Value = ${a.src};\nexport const A = defineComponent((props: { p: Value }) => () => null);`;
  const body = `type Value = ${b.src};\n  return defineComponent((props: { p: Value }) => () => null);`;
  const inner = ({
    fnDecl: `function make() {\n  ${body}\n}\nexport const B = make();`,
    arrow: `const make = () => {\n  ${body}\n};\nexport const B = make();`,
    fnExpr: `const make = function () {\n  ${body}\n};\nexport const B = make();`,
    method: `const holder = { make() {\n  ${body}\n} };\nexport const B = holder.make();`,
    iife: `export const B = (() => {\n  ${body}\n})();`,
    classMethod: `class Maker { make() {\n  ${body}\n} }\nexport const B = new Maker().make();`,
  })[c.scope || 'fnDecl'];
  return { src: `${R.PRELUDE}${[...st.pre].join('\n')}\n${c.innerFirst ? inner + '\n' + outer : outer + '\n' + inner}\n`, parts: c.innerFirst ? [b, a] : [a, b] };
}
function renderTwice(c) {
  const st = { n: 0, decls: [], pre: new Set() };
  const a = build({ a: c.x }, st), b = build({ a: c.y }, st);
  const m1 = `p: ${a.src}`, m2 = `p${c.opt2 ? '?' : ''}: ${b.src}`;
  const pre = `${R.PRELUDE}${[...st.pre].join('\n')}\n`;
  const any = (k) => k === 'any' || k === 'unknown';
  // inhabitants of both declarations (none when two different concrete types meet)
  const samples = any(c.x) ? b.samples : any(c.y) || c.x === c.y ? a.samples : [];
  let src;
  // a property and a method of the same name: the value may be either
  if (c.form === 'unionMethod') return { src: `${pre}export const C = defineComponent((props: { ${m1}; z: number } | { p${c.opt2 ? '?' : ''}(v: number): string; z: number }) => () => null);\n`, samples: a.samples.concat([() => 's']) };
  if (c.form === 'interMethodFirst') return { src: `${pre}interface DM { p(v: number): string }\ninterface DM { ${m2} }\nexport const C = defineComponent((props: DM) => () => null);\n`, samples: b.samples.concat([() => 's']).filter((v) => !(c.y === 'any' || c.y === 'unknown') || true) };
  if (c.form === 'inter') src = `${pre}export const C = defineComponent((props: { ${m1} } & { ${m2} }) => () => null);\n`;
  else if (c.form === 'merge') src = `${pre}interface DP { ${m1} }\ninterface DP { ${m2} }\nexport const C = defineComponent((props: DP) => () => null);\n`;
  else src = `${pre}interface DB { ${m1} }\ninterface DP extends DB { ${m2} }\nexport const C = defineComponent((props: DP) => () => null);\n`;
  return { src, samples };
}
function renderShared(c) {
  const st = { n: 0, decls: [], pre: new Set() };
  const a = build({ a: c.x }, st);
  const q = PROBES[c.probe];
  const members = q === null ? 'p: T1' : c.first ? `q: ${q}; p: T1` : `p: T1; q: ${q}`;
  const one = `export const A = defineComponent((props: { ${members} }) => () => null);`;
  const two = c.second ? '\nexport const B = defineComponent((props: { p: T1 }) => () => null);' : '';
  return { src: `${R.PRELUDE}${[...st.pre].join('\n')}\ntype T0 = ${a.src};\ntype T1 = T0;\n${one}${two}\n`, b: a };
}
function requests(c) { if (c.sp === 'D') return [{ src: renderTwice(c).src, ts: true, want: ['eval'], opts: JSON.stringify({ resolveType: true }) }]; if (c.sp === 'M') return [{ src: renderShared(c).src, ts: true, want: ['eval'], opts: JSON.stringify({ resolveType: true }) }]; if (c.sp === 'S') return [{ src: renderScoped(c).src, ts: true, want: ['eval'], opts: JSON.stringify({ resolveType: true }) }]; return [{ src: render(c).src, ts: true, want: ['eval'], opts: JSON.stringify({ resolveType: true }) }]; }

function judge(c, resps) {
  const r = resps[0];
  if (r.parse_error) return { engineError: 'generated module does not parse: ' + r.parse_error + ' :: ' + render(c).src };
  // a well-formed input of this space for which the transform panics or kills its process has no output that could satisfy the property
  if (r.panic || r.died) return { viol: [{ clause: 'transform-failed', diff: r.panic ? 'panic' : 'process-died', msg: r.panic ? `panic in ${r.panic.stage}: ${r.panic.msg}` : 'the transform killed its process' }], obs: 'transform-failed' };
  if (r.hang || !r.eval_js) return { skip: true };
  const res = R.run(r.eval_js);
  if (res.load) return { viol: [{ clause: 'load', diff: 'exception', msg: res.load }], obs: 'load' };
  if (c.sp === 'D') {
    const { samples } = renderTwice(c);
    const call = res.calls.find((x) => x.who === 'vue');
    const opt = call && call.args[1] && call.args[1].props && call.args[1].props.p;
    const viol = [];
    if (!opt) viol.push({ clause: 'twice:type', diff: 'prop:missing', msg: 'prop p was not declared', observed: call && call.args[1] });
    else for (const v of samples) {
      let ok;
      try { ok = V.validateType(v, opt); } catch (e) { ok = false; }
      if (!ok) { viol.push({ clause: 'twice:accepts-inhabitants', diff: 'rejected:' + (v === null ? 'null' : typeof v), msg: `a value that inhabits both declarations of p is rejected under runtime type ${JSON.stringify(R.typeList(opt.type))}`, observed: R.typeList(opt.type) }); break; }
    }
    return { viol, obs: stable(opt && R.typeList(opt.type)), clauses: ['twice:accepts-inhabitants'] };
  }
  if (c.sp === 'M') {
    const { b } = renderShared(c);
    const calls = res.calls.filter((x) => x.who === 'vue');
    const all = [];
    const obsM = [];
    calls.forEach((call, i) => { const j = judgeOne(b, call); obsM.push(j.obs); for (const v of j.viol) all.push(Object.assign({}, v, { clause: 'shared:' + v.clause })); });
    if (calls.length !== (c.second ? 2 : 1)) all.push({ clause: 'shared:type', diff: 'components:missing', msg: 'not every defineComponent call was observed' });
    const uniq = new Map();
    for (const v of all) if (!uniq.has(v.clause + v.diff)) uniq.set(v.clause + v.diff, v);
    return { viol: [...uniq.values()], obs: stable(obsM), clauses: ['shared:type'] };
  }
  if (c.sp === 'S') {
    const { parts } = renderScoped(c);
    const calls = res.calls.filter((x) => x.who === 'vue');
    const all = [];
    const obsS = [];
    parts.forEach((b, i) => { const j = judgeOne(b, calls[i]); obsS.push(j.obs); for (const v of j.viol) all.push(Object.assign({}, v, { clause: 'scoped:' + v.clause })); });
    const uniq = new Map();
    for (const v of all) if (!uniq.has(v.clause + v.diff)) uniq.set(v.clause + v.diff, v);
    return { viol: [...uniq.values()], obs: stable(obsS), clauses: ['scoped:type'] };
  }
  return judgeOne(render(c).b, res.calls.find((x) => x.who === 'vue'));
}

function judgeOne(b, call) {
  const viol = [];
  const opt = call && call.args[1] && call.args[1].props && call.args[1].props.p;
  if (!opt) return { viol: [{ clause: 'type', diff: 'prop:missing', msg: 'prop p was not declared', observed: call && call.args[1] }], obs: 'missing' };
  const names = R.typeList(opt.type);
  const expSet = [...new Set(b.ctors)];
  const noCheck = expSet.includes(NOCHECK);
  const emittedNoCheck = opt.type === null || opt.type === undefined || opt.type === true;
  if (!b.loose) {
    if (noCheck) {
      if (!emittedNoCheck) viol.push({ clause: 'type', diff: 'type:any-needs-no-check', msg: 'the declared type admits every value (any/unknown) but a runtime type check is emitted', expected: 'null (no check)', observed: names });
    } else if (emittedNoCheck && stable(expSet) === stable(['null'])) {
      // `type: null` for the type `null`: "null to the null value"
    } else if (emittedNoCheck) {
      // no check accepts everything: sound but not the mapping the statement gives
      viol.push({ clause: 'type', diff: 'type:unchecked', msg: 'no runtime type emitted for a type with known constructors', expected: expSet, observed: names });
    } else {
      const e = expSet.slice().sort(), g = [...new Set(names)].sort();
      if (stable(e) !== stable(g)) {
        const missing = e.filter((k) => !g.includes(k)), extra = g.filter((k) => !e.includes(k));
        viol.push({ clause: 'type', diff: 'type:ctor-set-differs', msg: `runtime type ${JSON.stringify(names)} is not the constructor set ${JSON.stringify(expSet)} (missing [${missing}] extra [${extra}])`, expected: expSet, observed: names });
      } else {
        const order = (xs) => xs.filter((k) => k === 'Boolean' || k === 'String').filter((k, i, a) => a.indexOf(k) === i);
        if (stable(order(names)) !== stable(order(b.ctors))) viol.push({ clause: 'bool-string-order', diff: 'order:different', msg: 'Boolean and String are not kept in declaration order', expected: order(b.ctors), observed: order(names) });
      }
    }
  }
  // the user-visible guarantee: Vue's validation never rejects an inhabitant
  for (const v of b.samples) {
    let ok;
    try { ok = V.validateType(v, opt); } catch (e) { ok = false; }
    if (!ok) { viol.push({ clause: 'accepts-inhabitants', diff: 'rejected:' + (v === null ? 'null' : typeof v), msg: `Vue's type assertion rejects an inhabitant of the declared type (${v === null ? 'null' : typeof v}) under runtime type ${JSON.stringify(names)}`, expected: expSet, observed: names }); break; }
  }
  return { viol, obs: stable(names), clauses: ['type', 'bool-string-order', 'accepts-inhabitants'] };
}

function spaces(tier) {
  const deep = tier === 'thorough';
  const thorough = true; // cheap: the quick tier explores the former thorough space
  const atoms = ATOM_KEYS.map((a) => ({ a }));
  const core = CORE_ATOMS.map((a) => ({ a }));
  const usesName = (t, nm) => (t.a ? t.a === nm : (OPS[t.op].once === nm || t.args.some((a) => usesName(a, nm))));
  const okArgs = (op, args) => (!OPS[op].only || args.every((t) => t.a && OPS[op].only.includes(t.a))) && (!OPS[op].once || !args.some((t) => usesName(t, OPS[op].once)));
  function* depth1(pool, pool2) {
    for (const op of UNARY) for (const x of pool) if (okArgs(op, [x])) yield { op, args: [x] };
    for (const op of BINARY) for (const x of pool) for (const y of pool2) if (okArgs(op, [x, y])) yield { op, args: [x, y] };
  }
  return [
    { name: 'S:same-named-aliases-in-two-scopes', bounds: { note: 'module-level `type Value = X` and function-local `type Value = Y`, one component each, both orders', atoms: 'all × core' }, *gen() { for (const scope of SCOPES) for (const x of (scope === 'fnDecl' ? ATOM_KEYS : CORE_ATOMS)) for (const y of CORE_ATOMS) for (const innerFirst of [false, true]) if (x !== y && x !== 'bigLit' && y !== 'bigLit') yield { sp: 'S', x, y, innerFirst, scope }; } },
    { name: 'D:prop-declared-twice', bounds: { forms: ['intersection', 'merged interface', 'extends'], atoms: 'core ∪ {unknown} × core ∪ {unknown}', note: 'one prop name declared by two members; only the user-visible clause is judged: values that inhabit both declarations must be accepted (and the emitted module must load)' }, *gen() { const pool = CORE_ATOMS.concat(['unknown']).filter((a) => a !== 'bigLit'); for (const form of ['inter', 'merge', 'ext', 'unionMethod', 'interMethodFirst']) for (const x of pool) for (const y of pool) for (const opt2 of [false, true]) yield { sp: 'D', form, x, y, opt2 }; } },
    { name: 'M:shared-alias-used-twice', bounds: { atoms: 'core', probes: Object.keys(PROBES), orders: ['probe first', 'probe last'], second_component: [false, true], note: 'an alias chain `type T0 = X; type T1 = T0` used by prop p, next to another use of T1 that may not be resolvable (indexed access); the second use must not change what p gets' }, *gen() { for (const x of CORE_ATOMS) if (x !== 'bigLit') for (const probe of Object.keys(PROBES)) for (const first of [true, false]) for (const second of [false, true]) yield { sp: 'M', x, probe, first, second }; } },
    { name: 'R:atoms', bounds: { atoms: ATOM_KEYS }, *gen() { for (const t of atoms) yield { t }; } },
    { name: 'R:depth-1', bounds: { unary: UNARY, binary: BINARY, atoms: 'all × all' }, *gen() { for (const t of depth1(atoms, atoms)) if (validTerm(t)) yield { t }; } },
    {
      name: 'R:depth-2',
      bounds: { note: thorough ? 'every operator over depth-1 terms built from the core atoms, second operand from the core' : 'unary operators over depth-1 terms from the core atoms; binary with a core atom', core_atoms: CORE_ATOMS },
      *gen() {
        const d1 = [...depth1(core, core)];
        for (const op of UNARY) for (const x of d1) if (okArgs(op, [x]) && validTerm({ op, args: [x] })) yield { t: { op, args: [x] } };
        for (const op of (thorough ? BINARY : ['union', 'tupleElemN'])) for (const x of d1) for (const y of (thorough ? core : core.slice(0, 6))) if (okArgs(op, [x, y]) && validTerm({ op, args: [x, y] })) yield { t: { op, args: [x, y] } };
      },
    },
    {
      name: 'R:depth-3',
      bounds: { note: deep ? 'unary operators over every depth-2 term built by a unary operator over the depth-1 core terms' : 'thorough tier only' },
      *gen() {
        if (!deep) return;
        const d1 = [...depth1(core, core)];
        for (const op of UNARY) for (const op2 of UNARY) for (const x of d1) if (okArgs(op2, [x])) { const t2 = { op: op2, args: [x] }; if (okArgs(op, [t2]) && validTerm({ op, args: [t2] })) yield { t: { op, args: [t2] } }; }
      },
    },
  ];
}

function* shrink(c) {
  if (c.sp === 'D') { if (c.opt2) yield Object.assign({}, c, { opt2: false }); if (c.form !== 'inter') yield Object.assign({}, c, { form: 'inter' }); return; }
  if (c.sp === 'M') { if (c.second) yield Object.assign({}, c, { second: false }); if (c.probe !== 'none') yield Object.assign({}, c, { probe: 'none' }); if (!c.first) yield Object.assign({}, c, { first: true }); if (c.x !== 'string') yield Object.assign({}, c, { x: 'string' }); return; }
  if (c.sp === 'S') { if (c.scope && c.scope !== 'fnDecl') yield Object.assign({}, c, { scope: 'fnDecl' }); if (c.innerFirst) yield Object.assign({}, c, { innerFirst: false }); if (c.x !== 'string' && c.y !== 'string') yield Object.assign({}, c, { x: 'string' }); if (c.y !== 'number' && c.x !== 'number') yield Object.assign({}, c, { y: 'number' }); return; }
  const t = c.t;
  if (t.a) { if (t.a !== 'string') return; return; }
  for (const a of t.args) yield { t: a };
  // replace one argument by a simpler one
  for (let i = 0; i < t.args.length; i++) {
    const a = t.args[i];
    if (!a.a) for (const sub of a.args) yield { t: { op: t.op, args: t.args.slice(0, i).concat([sub], t.args.slice(i + 1)) } };
    if (!(a.a === 'string')) yield { t: { op: t.op, args: t.args.slice(0, i).concat([{ a: 'string' }], t.args.slice(i + 1)) } };
  }
}

module.exports = {
  id: 'C17',
  level: 'model_checking',
  rule: 'BFS over type terms: every atom of the statement\'s table (keywords, literal types incl. bigint and template literals, function/constructor types, arrays/tuples, object-like types, built-in classes, any/unknown, null, utility wrappers), every depth-1 term (alias, alias chain, parentheses, NonNullable, | null, element access of arrays/tuples/objects/interfaces, union in both orders, intersection, Exclude/Extract) over all atoms, and depth-2 terms over a core; each term is the declared type of a prop, transformed by the real visitor with resolveType on and executed; the emitted runtime type, normalised to constructor names, must equal the reference constructor set (no check for any/unknown, Boolean/String in declaration order), and every sample inhabitant of the term must pass Vue\'s assertType algorithm. Distinct = distinct emitted type lists.',
  assumptions: ['Vue assertType / validateProp transcribed in the mock runtime', 'sample inhabitants per atom chosen by hand', 'SWC TypeScript parser; TS eraser of the driver'],
  spaces, requests, judge, shrink,
  caseKey: (c) => (c.sp === 'D' ? `D:${c.form} p: ${c.x} ; p${c.opt2 ? '?' : ''}: ${c.y}` : c.sp === 'M' ? `M:T1=T0=${c.x}; ${c.first ? 'q: ' + PROBES[c.probe] + '; p: T1' : 'p: T1; q: ' + PROBES[c.probe]}${c.second ? ' + second component' : ''}` : c.sp === 'S' ? `S:outer Value=${c.x}, inner Value=${c.y}${c.innerFirst ? ' (inner first)' : ''}${c.scope && c.scope !== 'fnDecl' ? ' in ' + c.scope : ''}` : termKey(c.t)),
  depth: (c) => { if (c.sp === 'S' || c.sp === 'M' || c.sp === 'D') return 2; const d = (t) => (t.a ? 0 : 1 + Math.max(...t.args.map(d))); return d(c.t); },
};
