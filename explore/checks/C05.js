'use strict';
// C05 — v-model / v-models produce a working two-way binding.
const { sequences } = require('../lib/spaces');
const { withModule, errStr } = require('../lib/evalmod');
const { canonValue, diff, diffClass, stable } = require('../lib/canon');
const E = require('../lib/espace');

// host: how the attribute list is laid out around the model attribute(s) V, expected directive, other props
const HOSTS = {
  input:     { tpl: (V) => `<input ${V} />`, dir: 'vue:vModelText', props: () => ({}) },
  text:      { tpl: (V) => `<input type="text" ${V} />`, dir: 'vue:vModelText', props: () => ({ type: 'text' }) },
  checkbox:  { tpl: (V) => `<input type="checkbox" ${V} />`, dir: 'vue:vModelCheckbox', props: () => ({ type: 'checkbox' }) },
  radio:     { tpl: (V) => `<input type="radio" ${V} />`, dir: 'vue:vModelRadio', props: () => ({ type: 'radio' }) },
  dynType:   { tpl: (V) => `<input type={t} ${V} />`, dir: 'vue:vModelDynamic', props: (e) => ({ type: e.bound.t }) },
  // a literal inside an expression container may be treated as static or as dynamic: both directives bind correctly
  exprType:  { tpl: (V) => `<input type={"checkbox"} ${V} />`, dir: 'vue:vModelDynamic', alt: 'vue:vModelCheckbox', props: () => ({ type: 'checkbox' }) },
  typeAfter: { tpl: (V) => `<input ${V} type="radio" />`, dir: 'vue:vModelRadio', props: () => ({ type: 'radio' }) },
  idThenType:{ tpl: (V) => `<input id="a" ${V} type="checkbox" />`, dir: 'vue:vModelCheckbox', props: () => ({ id: 'a', type: 'checkbox' }) },
  select:    { tpl: (V) => `<select ${V} />`, dir: 'vue:vModelSelect', props: () => ({}) },
  textarea:  { tpl: (V) => `<textarea ${V} />`, dir: 'vue:vModelText', props: () => ({}) },
  div:       { tpl: (V) => `<div ${V} />`, dir: null, props: () => ({}) }, // which directive a non-form element gets is not specified
  Comp:      { tpl: (V) => `<Comp ${V} />`, component: true, props: () => ({}) },
  CompId:    { tpl: (V) => `<Comp id="a" ${V} />`, component: true, props: () => ({ id: 'a' }) },
  // a member tag is a component whatever its last segment is called
  MemberInput: { tpl: (V) => `<ns.input ${V} />`, component: true, props: () => ({}) },
  MemberInputCk: { tpl: (V) => `<ns.input type="checkbox" ${V} />`, component: true, props: () => ({ type: 'checkbox' }) },
  // only in the v-models differential space: a spread that collides with the generated keys, before / after
  CompSpreadBefore: { tpl: (V) => `<Comp {...sv} ${V} />`, component: true, lonly: true },
  CompSpreadAfter:  { tpl: (V) => `<Comp ${V} {...sv} />`, component: true, lonly: true },
  CompListenerBefore: { tpl: (V) => `<Comp onUpdate:modelValue={h2} modelValue="own" ${V} />`, component: true, lonly: true },
  inputSpreadBefore: { tpl: (V) => `<input {...sv} ${V} />`, lonly: true },
};
const TARGETS = {
  mv:   { src: 'mv', read: (out) => out.read().mv, init: (e) => e.mv0 },
  op:   { src: 'o.p', read: (out, e) => e.bound.o.p, init: (e) => e.bound.o.p },
  ok:   { src: 'o[kk]', read: (out, e) => e.bound.o.p, init: (e) => e.bound.o.p },
  arr0: { src: 'arr[0]', read: (out, e) => e.bound.arr[0], init: (e) => e.bound.arr[0] },
};
// semantically transparent wrappers around the target (.tsx): same storage cell, same binding
for (const [k, base, src] of [['mvNN', 'mv', 'mv!'], ['mvParen', 'mv', '(mv)'], ['mvAs', 'mv', 'mv as any'], ['mvParenAs', 'mv', '(mv as any)'], ['opNN', 'op', 'o.p!'], ['opAs', 'op', 'o.p as string'], ['opParen', 'op', '(o.p)'], ['okNN', 'ok', 'o[kk]!'], ['arr0Sat', 'arr0', 'arr[0] satisfies any'], ['arr0ParenNN', 'arr0', '(arr[0])!']]) {
  TARGETS[k] = Object.assign({}, TARGETS[base], { src, cell: base === 'ok' ? 'op' : base, base, ts: true });
}
const cellOf = (t) => TARGETS[t].cell || (t === 'ok' ? 'op' : t);
const CELLS = ['mv', 'op', 'arr0']; // distinct storage cells (o.p and o[kk] are the same one)
const ARGS = { none: {}, arrOnly: { only: true }, ns: { name: () => 'arg' }, arrStr: { arr: "'arg'", name: () => 'arg' }, arrStr2: { arr: "'second-name'", name: () => 'second-name' }, arrDyn: { arr: 'dyn', name: (e) => e.bound.dyn, computed: true } };
const MODFORMS = { none: { mods: [] }, suffix1: { suffix: ['trim'], mods: ['trim'] }, suffix2: { suffix: ['a', 'b'], mods: ['a', 'b'] }, arr: { arr: ['trim'], mods: ['trim'] }, arr2: { arr: ['lazy', 'a-b'], mods: ['lazy', 'a-b'] },
  // names that are not identifiers although they hold no punctuation: digit first, a number, a reserved word, a dollar
  arrOdd: { arr: ['2way', 'trim', 'default'], mods: ['2way', 'trim', 'default'] }, arrNum: { arr: ['0', '$x'], mods: ['0', '$x'] } };

function modelAttr(m) {
  const a = ARGS[m.arg], mf = MODFORMS[m.mod];
  const name = (m.camel ? 'vModel' : 'v-model') + (m.arg === 'ns' ? ':arg' : '') + (mf.suffix ? mf.suffix.map((x) => '_' + x).join('') : '');
  return `${name}=${modelValueSrc(m)}`;
}
function modelValueSrc(m) {
  const a = ARGS[m.arg], mf = MODFORMS[m.mod];
  const t = TARGETS[m.target].src;
  if (a.arr || mf.arr || m.forceArray || a.only) {
    const parts = [t];
    if (a.arr) parts.push(a.arr);
    if (mf.arr) parts.push('[' + mf.arr.map((x) => `'${x}'`).join(', ') + ']');
    return `{[${parts.join(', ')}]}`;
  }
  return `{${t}}`;
}
// the array literal of a v-models entry (same text as the array form of v-model)
function entrySrc(m) { return modelValueSrc(Object.assign({}, m, { forceArray: true })).slice(1, -1); }

const PRELUDE = E.PRELUDE + 'const kk = "p";\nconst sv = { modelValue: "spv", arg: "spArg", "onUpdate:modelValue": h1, "onUpdate:arg": h2, dynArg: "spDyn" };\n';

function render(c) {
  const h = HOSTS[c.host];
  if (c.sp === 'M') return PRELUDE + `__out.mk = () => (${h.tpl(modelAttr(c.m))});\n`;
  // v-models vs. the same-order sequence of individual v-model attributes
  const list = `v-models={[${c.ms.map(entrySrc).join(', ')}]}`;
  const singles = c.ms.map((m) => `v-model=${modelValueSrc(Object.assign({}, m, { forceArray: true }))}`).join(' ');
  return PRELUDE + `__out.mk = () => (${h.tpl(list)});\n__out.base = () => (${h.tpl(singles)});\n`;
}

function requests(c) { return [{ src: render(c), ts: (c.sp === 'M' ? [c.m] : c.ms).some((m) => TARGETS[m.target].ts), want: ['eval'], opts: JSON.stringify({ mergeProps: c.mp, optimize: c.opt }) }]; }

function mkEnv() { const env = E.makeEnv(); return env; }

// fire every onUpdate:* listener with a sentinel and report which targets changed
function fire(v, out, env) {
  const res = {};
  const props = (v && v.props) || {};
  for (const key of Object.keys(props).sort()) {
    if (!/^onUpdate/.test(key)) continue;
    const fns = [].concat(props[key]);
    const before = {};
    for (const t of CELLS) before[t] = TARGETS[t].read(out, env);
    const sentinel = 'NEW<' + key + '>';
    try { for (const f of fns) f(sentinel); } catch (e) { res[key] = { throws: e.name }; continue; }
    const changed = {};
    for (const t of CELLS) { const now = TARGETS[t].read(out, env); if (now !== before[t]) changed[t] = now; }
    res[key] = changed;
  }
  return res;
}

function expectedSingle(c, env) {
  const h = HOSTS[c.host], m = c.m, a = ARGS[m.arg], mf = MODFORMS[m.mod];
  const value = TARGETS[m.target].init(env);
  const name = a.name ? a.name(env) : 'modelValue';
  const mods = {}; for (const x of mf.mods) mods[x] = true;
  const props = Object.assign({}, h.props(env));
  const listenerKey = 'onUpdate:' + name;
  props[listenerKey] = function generated() {};
  const exp = { props, dirs: null, listenerKey, target: cellOf(m.target) };
  if (h.component) {
    props[name] = value;
    if (mf.mods.length) props[name === 'modelValue' ? 'modelModifiers' : name + 'Modifiers'] = mods;
  } else {
    exp.dirs = [{ dir: h.dir || '«unjudged»', value, arg: a.name ? a.name(env) : undefined, modifiers: mods }];
  }
  return exp;
}

function judge(c, resps) {
  const r = resps[0];
  if (r.parse_error) return { engineError: 'generated case does not parse: ' + r.parse_error };
  // a well-formed input of this space for which the transform panics or kills its process has no output that could satisfy the property
  if (r.panic || r.died) return { viol: [{ clause: 'transform-failed', diff: r.panic ? 'panic' : 'process-died', msg: r.panic ? `panic in ${r.panic.stage}: ${r.panic.msg}` : 'the transform killed its process' }], obs: 'transform-failed' };
  if (r.hang || !r.eval_js) return { skip: true };
  const env = mkEnv();
  const ctx = { names: env.names, flags: false };
  const viol = [];
  let obs;
  withModule(r.eval_js, env, (out, rec, loadError) => {
    if (loadError) { viol.push({ clause: 'load', diff: 'exception:' + loadError.name, msg: errStr(loadError) }); return; }
    let v;
    try { v = out.mk(); } catch (e) { viol.push({ clause: 'create', diff: 'exception:' + e.name, msg: errStr(e) }); return; }
    const o = canonValue(v, ctx, []);
    if (c.sp === 'M') {
      const exp = expectedSingle(c, env);
      const eo = canonValue({ __v_isVNode: true, type: 'x', props: exp.props, children: null }, ctx, []);
      const dp = diff(eo.props, (o && o.props) || {});
      if (dp) viol.push({ clause: 'props', diff: 'props' + diffClass(dp), msg: `props differ at ${dp.path}`, expected: eo.props, observed: o && o.props });
      const ed = exp.dirs ? canonValue(exp.dirs, ctx, []) : [];
      const got = (o && o.dirs) || [];
      ed.forEach((x, i) => { if (x.dir === '«unjudged»' && got[i]) got[i].dir = '«unjudged»'; });
      if (HOSTS[c.host].alt && got[0] && got[0].dir === HOSTS[c.host].alt && ed[0]) ed[0].dir = HOSTS[c.host].alt;
      const dd = diff(ed, got);
      if (dd) viol.push({ clause: 'directive', diff: 'dirs' + diffClass(dd), msg: `model directive binding differs at ${dd.path}`, expected: ed, observed: got });
      const fired = fire(v, out, env);
      const ef = { [exp.listenerKey]: { [exp.target]: 'NEW<' + exp.listenerKey + '>' } };
      if (exp.target === 'op') { /* o.p and o[kk] are the same cell */ }
      const df = diff(ef, fired);
      if (df) viol.push({ clause: 'listener', diff: 'fire' + diffClass(df).replace(/<[^>]*>/g, '<…>'), msg: `invoking the update listener does not assign the bound target (at ${df.path})`, expected: ef, observed: fired });
      obs = stable([o, fired]);
    } else {
      const firedA = fire(v, out, env);
      // fresh environment for the reference form so that assignments do not leak between the two
      const env2 = mkEnv();
      const ctx2 = { names: env2.names, flags: false };
      let ob, firedB;
      withModule(r.eval_js, env2, (out2, rec2, le2) => {
        let b;
        try { b = out2.base(); } catch (e) { viol.push({ clause: 'create-base', diff: 'exception:' + e.name, msg: errStr(e) }); return; }
        ob = canonValue(b, ctx2, []);
        firedB = fire(b, out2, env2);
      });
      const d1 = diff(ob, o);
      if (d1) viol.push({ clause: 'v-models-vs-v-model', diff: 'vnode' + diffClass(d1), msg: `v-models differs from the same-order v-model attributes at ${d1.path}`, expected: ob, observed: o });
      const d2 = diff(firedB, firedA);
      if (d2) viol.push({ clause: 'v-models-listeners', diff: 'fire' + diffClass(d2), msg: `listeners of v-models behave differently from those of the individual v-model attributes (at ${d2.path})`, expected: firedB, observed: firedA });
      // and each entry's listener assigns its own target
      obs = stable([o, firedA]);
    }
  });
  return { viol, obs, clauses: c.sp === 'M' ? ['props', 'directive', 'listener'] : ['v-models-vs-v-model', 'v-models-listeners'] };
}

function* singles() {
  for (const target of Object.keys(TARGETS)) for (const arg of Object.keys(ARGS)) for (const mod of Object.keys(MODFORMS)) yield { target, arg, mod };
  // the camel-case spelling `vModel` is the same directive
  for (const target of ['mv', 'op']) for (const arg of Object.keys(ARGS)) for (const mod of Object.keys(MODFORMS)) yield { target, arg, mod, camel: true };
}

function spaces(tier) {
  const thorough = true; // cheap: the quick tier explores the whole space too
  // v-models entries: distinct argument names so that the reference form has no repeated non-mergeable names
  const ENTRY = [
    { target: 'mv', arg: 'none', mod: 'none' }, { target: 'mv', arg: 'none', mod: 'arr' },
    { target: 'op', arg: 'arrStr', mod: 'none' }, { target: 'op', arg: 'arrStr', mod: 'arr' },
    { target: 'arr0', arg: 'arrDyn', mod: 'none' }, { target: 'arr0', arg: 'arrDyn', mod: 'arr2' },
    { target: 'mv', arg: 'arrStr2', mod: 'none' }, { target: 'arr0', arg: 'arrStr2', mod: 'arr' },
    { target: 'mvParen', arg: 'none', mod: 'none' }, { target: 'opAs', arg: 'arrStr', mod: 'arr' }, { target: 'arr0ParenNN', arg: 'arrDyn', mod: 'none' },
  ];
  const argOf = (i) => ENTRY[i].arg;
  return [
    {
      name: 'M:v-model',
      bounds: { hosts: Object.keys(HOSTS).filter((h) => !HOSTS[h].lonly), targets: Object.keys(TARGETS), argument_forms: Object.keys(ARGS), modifier_forms: Object.keys(MODFORMS), options: 'mergeProps × optimize' },
      *gen() { for (const host of Object.keys(HOSTS).filter((h) => !HOSTS[h].lonly)) for (const m of singles()) for (const mp of [true, false]) for (const opt of [false, true]) yield { sp: 'M', host, m, mp, opt }; },
    },
    {
      name: 'L:v-models',
      bounds: { hosts: ['Comp', 'CompId', 'input', 'select', 'CompSpreadBefore', 'CompSpreadAfter', 'CompListenerBefore', 'inputSpreadBefore'], entries: ENTRY.map((m) => entrySrc(m)), max_length: thorough ? 4 : 3, rule: 'entries with pairwise distinct argument names; differential against the same-order v-model attributes' },
      *gen() {
        for (const host of ['Comp', 'CompId', 'input', 'select', 'CompSpreadBefore', 'CompSpreadAfter', 'CompListenerBefore', 'inputSpreadBefore']) for (const seq of sequences(ENTRY.length, thorough ? 4 : 3, { minLen: 1, ok: (idx, pos) => !idx.slice(0, pos).some((j) => argOf(j) === argOf(idx[pos])) })) {
          for (const mp of [true, false]) for (const opt of thorough ? [false, true] : [false]) yield { sp: 'L', host, ms: seq.map((i) => ENTRY[i]), mp, opt };
        }
      },
    },
  ];
}

function* shrink(c) {
  if (c.sp === 'L') {
    for (let i = 0; i < c.ms.length; i++) if (c.ms.length > 1) yield Object.assign({}, c, { ms: c.ms.slice(0, i).concat(c.ms.slice(i + 1)) });
    for (let i = 0; i < c.ms.length; i++) if (TARGETS[c.ms[i].target].base) yield Object.assign({}, c, { ms: c.ms.map((m, j) => (j === i ? Object.assign({}, m, { target: TARGETS[m.target].base }) : m)) });
    if (c.host !== 'Comp') yield Object.assign({}, c, { host: 'Comp' });
  } else {
    const m = c.m;
    if (m.camel) yield Object.assign({}, c, { m: Object.assign({}, m, { camel: false }) });
    if (m.mod !== 'none') yield Object.assign({}, c, { m: Object.assign({}, m, { mod: 'none' }) });
    if (m.arg !== 'none') yield Object.assign({}, c, { m: Object.assign({}, m, { arg: 'none' }) });
    if (TARGETS[m.target].base) yield Object.assign({}, c, { m: Object.assign({}, m, { target: TARGETS[m.target].base }) });
    if (m.target !== 'mv') yield Object.assign({}, c, { m: Object.assign({}, m, { target: 'mv' }) });
    if (c.host !== 'input' && !HOSTS[c.host].component) yield Object.assign({}, c, { host: 'input' });
    if (HOSTS[c.host].component && c.host !== 'Comp') yield Object.assign({}, c, { host: 'Comp' });
  }
  if (!c.mp) yield Object.assign({}, c, { mp: true });
  if (c.opt) yield Object.assign({}, c, { opt: false });
}

function caseKey(c) {
  const o = `{${c.mp ? '' : 'mergeProps=off'}${c.opt ? ' optimize' : ''}}`;
  if (c.sp === 'M') return HOSTS[c.host].tpl(modelAttr(c.m)) + o;
  return HOSTS[c.host].tpl(`v-models={[${c.ms.map(entrySrc).join(', ')}]}`) + o;
}

module.exports = {
  id: 'C05',
  level: 'model_checking',
  rule: 'complete product host × target expression × argument form × modifier form × mergeProps × optimize for v-model, plus every v-models list up to length 3 over entries with pairwise distinct argument names; each state is transformed by the real visitor and executed: props and the model directive binding are compared with the reference table, every onUpdate:* listener is *called* with a sentinel and the bound target read back; v-models is compared (vnode and listener behaviour) with the same-order sequence of v-model attributes. Distinct = distinct canonical (vnode, listener effects).',
  assumptions: ['mock Vue runtime (withDirectives, vModel* sentinels)', 'node evaluator', 'reference v-model table written from the property statement'],
  spaces, requests, judge, shrink, caseKey,
  depth: (c) => (c.sp === 'L' ? c.ms.length : (c.m.arg !== 'none') + (c.m.mod !== 'none') + (c.m.target !== 'mv') + 1),
};
