'use strict';
// C04 — directives reach the runtime with the right definition, value, arg and modifiers.
const { sequences } = require('../lib/spaces');
const { withModule, errStr } = require('../lib/evalmod');
const { canonValue, diff, diffClass, stable } = require('../lib/canon');
const E = require('../lib/espace');

// spellings: [source name, runtime name (prefix removed, first letter lower-cased)]
const NAMES = { 'v-visible': 'visible', vValue: 'value', 'v-foo': 'foo', vFoo: 'foo', 'v-foo-bar': 'foo-bar', vFooBar: 'fooBar', 'v-show': '@vShow', vShow: '@vShow' };
const MODS = { none: [], a: ['a'], ab: ['a', 'b'], hy: ['a-b'], mix: ['ok', 'a-b', 'c'] };
// value shapes: src, value(env), arg(env)|undefined, mods|undefined ; abstainValue for the value-less form
const SHAPES = {
  x:      { src: '={x}', value: (e) => e.bound.x },
  call:   { src: '={f()}', value: (e) => 'fres' + e.variant },
  arr1:   { src: '={[x]}', value: (e) => e.bound.x, array: true },
  arrArg: { src: "={[x, 'a2']}", value: (e) => e.bound.x, arg: () => 'a2', array: true },
  arrDyn: { src: '={[x, dyn]}', value: (e) => e.bound.x, arg: (e) => e.bound.dyn, array: true },
  arrMods:{ src: "={[x, ['m1', 'm2']]}", value: (e) => e.bound.x, mods: ['m1', 'm2'], array: true },
  arrAll: { src: "={[x, 'a2', ['m1']]}", value: (e) => e.bound.x, arg: () => 'a2', mods: ['m1'], array: true },
  arrModsOdd: { src: "={[x, ['2way', 'default', '0', '$x']]}", value: (e) => e.bound.x, mods: ['2way', 'default', '0', '$x'], array: true, narrow: true },
  arrModsMix: { src: "={[x, ['m1', 'm-2', 'ok']]}", value: (e) => e.bound.x, mods: ['m1', 'm-2', 'ok'], array: true, narrow: true },
  arrMem: { src: '={[o.p, o.q.r, ["m-1"]]}', value: (e) => e.bound.o.p, arg: (e) => e.bound.o.q.r, mods: ['m-1'], array: true },
  str:    { src: '="str"', value: () => 'str' },
  absent: { src: '', novalue: true },
  // JSX attribute strings are not JavaScript strings: a backslash is a backslash, entities are decoded, and the
  // literal may span lines (its value is the text as written: only ordinary attributes are whitespace-normalised)
  strBsl: { narrow: true, src: '="a\\nb"', value: () => 'a\\nb' },
  strEnt: { narrow: true, src: '="a&amp;b&quot;"', value: () => 'a&b"' },
  strSq:  { narrow: true, src: "='a\"b'", value: () => 'a"b' },
  strNL:  { narrow: true, src: '="a\n   b"', value: () => 'a\n   b' },
  // semantically transparent wrappers (.tsx) around the value, or around elements of the array form
  xNN:    { src: '={x!}', value: (e) => e.bound.x, ts: true },
  xAs:    { src: '={x as any}', value: (e) => e.bound.x, ts: true },
  xParen: { src: '={(x)}', value: (e) => e.bound.x, ts: true },
  callSat:{ src: '={f() satisfies any}', value: (e) => 'fres' + e.variant, ts: true },
  arrElNN:{ src: "={[x!, 'a2' as string]}", value: (e) => e.bound.x, arg: () => 'a2', array: true, ts: true },
  arrElAs:{ src: "={[(x as any), (dyn)!, ['m1']]}", value: (e) => e.bound.x, arg: (e) => e.bound.dyn, mods: ['m1'], array: true, ts: true },
};
const CO_ATTRS = ['id', 'clsD', 'sp1', 'onClick1', 'key'];
// only in the small contexts: a v-models list (rewritten into v-model attributes before anything else is looked at)
const CO_EXTRA_SRC = { vmodels: "v-models={[[mv, 'mm']]}" };
const CO_CHILDREN = ['none', 'ta', 'bx', 'el'];
const SECOND = { none: null, before: 'before', after: 'after', sameBefore: 'sameBefore', sameAfter: 'sameAfter' };
const HOSTS = ['div', 'Comp'];

function dirSrc(d) {
  if (d.special) return `${d.special}${SHAPES[d.shape].src}`;
  return `${d.name}${d.arg ? ':arg' : ''}${MODS[d.mods].map((m) => '_' + m).join('')}${SHAPES[d.shape].src}`;
}

// Where the statement gives two sources for one component (`:arg` and an array-form argument; suffix
// modifiers and an array-form list) that component alone is left unjudged; everything else still is.
function abstainDir(d) { return false; }
function unjudged(d) {
  if (d.special) return {};
  const s = SHAPES[d.shape];
  return { arg: !!(d.arg && s.arg), mods: !!(MODS[d.mods].length && s.mods), value: !!s.novalue };
}

function* directives(full) {
  const names = full ? Object.keys(NAMES) : ['v-foo', 'vFooBar', 'v-show'];
  for (const name of names) for (const arg of [false, true]) for (const mods of Object.keys(MODS)) for (const shape of Object.keys(SHAPES)) {
    // wrapped shapes: only with the full grammar in small contexts, and with the core names
    if (mods === 'mix' && (!full || !['v-foo', 'vFooBar', 'v-show'].includes(name) || SHAPES[shape].ts || SHAPES[shape].narrow)) continue;
    if ((SHAPES[shape].ts || SHAPES[shape].narrow) && (!full || !['v-foo', 'vFooBar', 'v-show'].includes(name) || mods === 'ab')) continue;
    const d = { name, arg, mods, shape };
    if (!abstainDir(d)) yield d;
  }
  for (const special of ['v-html', 'v-text', 'vHtml', 'vText']) for (const shape of ['x', 'call', 'str', 'strBsl', 'strEnt', 'strSq', 'strNL', 'arr1', 'arrArg', 'arrAll']) yield { special, shape };
}

function* contexts(full, extra) {
  const maxAttrs = full ? 2 : 1;
  // the small contexts also take an attribute whose value is a bare JSX element (`jb=<b/>`: lowered by re-entering the element code)
  const CO = extra ? CO_ATTRS.concat(['jsxBare', 'jsxval', 'vmodels']) : CO_ATTRS;
  for (const seq of sequences(CO.length, maxAttrs, { distinct: true })) {
    const attrs = seq.map((i) => CO[i]);
    for (let pos = 0; pos <= attrs.length; pos++) for (const ch of (full ? CO_CHILDREN : ['none', 'bx'])) for (const second of Object.keys(SECOND)) {
      yield { attrs, pos, ch, second };
    }
  }
}

function spaces(tier) {
  const thorough = tier === 'thorough';
  return [
    {
      name: 'D:v-models-neighbours',
      bounds: { note: 'a directive between / around a spread and a v-models list (the list is rewritten into v-model attributes by position before the element is lowered)', co_attributes: ['sp1', 'sp2', 'vmodels', 'id'], hosts: HOSTS },
      *gen() {
        const pool = ['sp1', 'sp2', 'vmodels', 'id'];
        for (const host of HOSTS) for (const d of directives(false)) if (!d.special && d.mods !== 'ab' && ['x', 'arrArg', 'absent'].includes(d.shape)) for (const a of pool) for (const b of pool) if (a !== b && (a === 'vmodels' || b === 'vmodels')) for (let pos = 0; pos <= 2; pos++) yield { host, d, k: { attrs: [a, b], pos, ch: 'none', second: 'none' } };
      },
    },
    {
      name: 'D:full-grammar×small-contexts',
      bounds: { names: Object.keys(NAMES), arg: [false, true], modifiers: Object.keys(MODS), value_shapes: Object.keys(SHAPES), hosts: HOSTS, contexts: thorough ? 'co-attributes ≤2 of 5 at every position × children × second directive' : 'co-attributes ≤1 × position × {no child, {x}} × second directive' },
      *gen() { for (const host of HOSTS) for (const d of directives(true)) for (const k of contexts(thorough, true)) yield { host, d, k }; },
    },
    {
      name: 'D:core-grammar×full-contexts',
      bounds: { names: ['v-foo', 'vFooBar', 'v-show'], contexts: 'co-attributes ≤2 of 5 at every position × 4 child forms × second directive before/after/none' },
      *gen() { if (thorough) return; for (const host of HOSTS) for (const d of directives(false)) for (const k of contexts(true)) if (k.attrs.length === 2 || !['none', 'bx'].includes(k.ch)) yield { host, d, k }; },
    },
  ];
}

function render(c, withDir) {
  const parts = c.k.attrs.map((a) => CO_EXTRA_SRC[a] || E.ATTRS[a].src);
  const ins = [];
  if (withDir) {
    const same = c.d.special ? 'v-bar={y}' : `${c.d.name}:other={y}`; // a second use of the very same directive
    if (c.k.second === 'before') ins.push('v-bar={y}');
    if (c.k.second === 'sameBefore') ins.push(same);
    ins.push(dirSrc(c.d));
    if (c.k.second === 'after') ins.push('v-bar={y}');
    if (c.k.second === 'sameAfter') ins.push(same);
  }
  parts.splice(c.k.pos, 0, ...ins);
  const ch = c.k.ch === 'none' ? [] : [E.CHILDREN[c.k.ch].src];
  return E.renderJsx(c.host, parts, ch);
}

function requests(c) {
  const src = E.PRELUDE + `__out.mk = () => (${render(c, true)});\n__out.base = () => (${render(c, false)});\n`;
  return [{ src, ts: !!SHAPES[c.d.shape].ts, want: ['eval'], opts: '{}' }];
}

function expectedBindings(c, env, alt) {
  const out = [];
  const bar = { dir: 'resolvedDir:bar', value: env.bound.y, arg: undefined, modifiers: {} };
  const rnSame = c.d.special ? null : NAMES[c.d.name];
  const same = c.d.special ? bar : { dir: rnSame === '@vShow' ? 'vue:vShow' : 'resolvedDir:' + rnSame, value: env.bound.y, arg: 'other', modifiers: {} };
  if (c.k.second === 'before') out.push(bar);
  if (c.k.second === 'sameBefore') out.push(same);
  if (!c.d.special) {
    const s = SHAPES[c.d.shape];
    const mods = {};
    for (const m of (s.mods || MODS[c.d.mods])) mods[m] = true;
    const rn = NAMES[c.d.name];
    const u = unjudged(c.d);
    out.push({
      dir: rn === '@vShow' ? 'vue:vShow' : 'resolvedDir:' + rn,
      value: u.value ? '«unjudged»' : (alt && s.valueAlt ? s.valueAlt(env) : s.value(env)),
      arg: u.arg ? '«unjudged»' : c.d.arg ? 'arg' : s.arg ? s.arg(env) : undefined,
      modifiers: u.mods ? '«unjudged»' : mods,
    });
  }
  if (c.k.second === 'after') out.push(bar);
  if (c.k.second === 'sameAfter') out.push(same);
  return out;
}

function judge(c, resps) {
  const r = resps[0];
  if (r.parse_error) return { engineError: 'generated case does not parse: ' + r.parse_error };
  // a well-formed input of this space for which the transform panics or kills its process has no output that could satisfy the property
  if (r.panic || r.died) return { viol: [{ clause: 'transform-failed', diff: r.panic ? 'panic' : 'process-died', msg: r.panic ? `panic in ${r.panic.stage}: ${r.panic.msg}` : 'the transform killed its process' }], obs: 'transform-failed' };
  if (r.hang || !r.eval_js) return { skip: true };
  const env = E.makeEnv();
  const ctx = { names: env.names, flags: false };
  const viol = [];
  let obs;
  withModule(r.eval_js, env, (out, rec, loadError) => {
    if (loadError) { viol.push({ clause: 'load', diff: 'exception:' + loadError.name, msg: errStr(loadError) }); return; }
    let v, b;
    try { v = out.mk(); b = out.base(); } catch (e) { viol.push({ clause: 'create', diff: 'exception:' + e.name, msg: errStr(e) }); return; }
    const o = canonValue(v, ctx, []);
    const ob = canonValue(b, ctx, []);
    obs = stable(o);
    // bindings
    const eb = canonValue(expectedBindings(c, env), ctx, []);
    // bindings contributed by a v-models / v-model co-attribute are C05's business
    const got = ((o && o.dirs) || []).filter((b) => !/^vue:vModel/.test(String(b.dir)));
    // the value of a value-less directive is not specified: mask it at the directive's own position only
    eb.forEach((x, i) => { for (const k of ['value', 'arg', 'modifiers']) if (x[k] === '«unjudged»' && got[i]) got[i][k] = '«unjudged»'; });
    let d = diff(eb, got);
    if (d && SHAPES[c.d.shape].valueAlt) d = diff(canonValue(expectedBindings(c, env, true), ctx, []), got);
    if (d) viol.push({ clause: 'bindings', diff: 'dirs' + diffClass(d), msg: `directive bindings differ at ${d.path}`, expected: eb, observed: got });
    // other props / children undisturbed (differential against the same element without the directive)
    const eProps = ob && ob.props ? Object.assign({}, ob.props) : {};
    if (c.d.special) {
      const key = /html/i.test(c.d.special) ? 'innerHTML' : 'textContent';
      eProps[key] = canonValue(SHAPES[c.d.shape].value(env), ctx, []);
      const sh = SHAPES[c.d.shape];
      if (sh.valueAlt && o && o.props && o.props[key] === sh.valueAlt(env)) eProps[key] = sh.valueAlt(env);
    }
    const oProps = (o && o.props) || {};
    const dp = diff(eProps, oProps);
    if (dp) viol.push({ clause: 'props-undisturbed', diff: 'props' + diffClass(dp), msg: `props differ from the directive-free element at ${dp.path}`, expected: eProps, observed: oProps });
    const dc = diff(ob && ob.children, o && o.children);
    if (dc) viol.push({ clause: 'children-undisturbed', diff: 'children' + diffClass(dc), msg: `children differ from the directive-free element at ${dc.path}`, expected: ob && ob.children, observed: o && o.children });
    if (stable(ob && ob.type) !== stable(o && o.type)) viol.push({ clause: 'type-undisturbed', diff: 'type:different', expected: ob && ob.type, observed: o && o.type });
  });
  return { viol, obs, clauses: ['bindings', 'props-undisturbed', 'children-undisturbed'] };
}

function* shrink(c) {
  const k = c.k;
  if (k.second !== 'none') yield Object.assign({}, c, { k: Object.assign({}, k, { second: 'none' }) });
  for (let i = 0; i < k.attrs.length; i++) {
    const attrs = k.attrs.slice(0, i).concat(k.attrs.slice(i + 1));
    yield Object.assign({}, c, { k: Object.assign({}, k, { attrs, pos: Math.min(k.pos > i ? k.pos - 1 : k.pos, attrs.length) }) });
  }
  if (k.ch !== 'none') yield Object.assign({}, c, { k: Object.assign({}, k, { ch: 'none' }) });
  if (c.host !== 'div') yield Object.assign({}, c, { host: 'div' });
  const d = c.d;
  if (!d.special) {
    if (d.arg) yield Object.assign({}, c, { d: Object.assign({}, d, { arg: false }) });
    if (d.mods !== 'none') { yield Object.assign({}, c, { d: Object.assign({}, d, { mods: 'none' }) }); if (d.mods !== 'a') yield Object.assign({}, c, { d: Object.assign({}, d, { mods: 'a' }) }); }
    if (d.shape !== 'x') for (const sh of ['x', 'arr1', 'arrArg', 'arrMods']) if (sh !== d.shape && !abstainDir(Object.assign({}, d, { shape: sh }))) yield Object.assign({}, c, { d: Object.assign({}, d, { shape: sh }) });
    if (d.name !== 'v-foo') yield Object.assign({}, c, { d: Object.assign({}, d, { name: 'v-foo' }) });
  } else {
    if (d.shape !== 'x') yield Object.assign({}, c, { d: Object.assign({}, d, { shape: 'x' }) });
    if (d.special !== 'v-html') yield Object.assign({}, c, { d: Object.assign({}, d, { special: 'v-html' }) });
  }
}

function caseKey(c) {
  const k = c.k;
  return `<${c.host} ${render(c, true).replace(/^<\S+\s*/, '').replace(/\s+/g, ' ')}`.slice(0, 200);
}

module.exports = {
  id: 'C04',
  level: 'model_checking',
  rule: 'complete product of the directive grammar (spelling × `:arg` × `_modifier` suffixes × value shape, plus v-html/v-text) × host × co-occurrence context (co-attributes at every relative position, a child, a second directive before/after); each state is transformed by the real visitor and executed; the bindings recorded by the mock withDirectives are compared with the reference (one binding per directive attribute, in source order, definition/value/argument/modifiers as the statement lists them) and the vnode\'s other props and children are compared with those of the same element without the directive (differential). Distinct = distinct canonical vnodes.',
  assumptions: ['mock Vue runtime (withDirectives, resolveDirective, vShow)', 'node evaluator', 'reference directive model written from the property statement'],
  spaces, requests, judge, shrink, caseKey,
  depth: (c) => c.k.attrs.length + (c.k.ch !== 'none') + (c.k.second !== 'none') + 1,
};
