'use strict';
// C07 — output is plain valid ECMAScript/TypeScript, or an error was reported.
const G = require('../lib/gspace');
const { hash } = require('../lib/canon');
const H = require('../lib/hspace');
const HG = require('../lib/hgen');

function requests(c) { if (c.items) return [{ src: H.renderHistory(c.items, !!c.ts), ts: !!c.ts, opts: JSON.stringify({ transformOn: true, resolveType: !!c.ts }) }]; return [{ src: G.render(c), ts: !!c.ts, opts: JSON.stringify(c.o || {}) }]; }

function judge(c, resps) {
  const r = resps[0];
  if (r.parse_error) return { skip: true }; // not a module the SWC parser accepts: outside the quantifier
  if (r.opts_error) return { engineError: 'option corner rejected: ' + r.opts_error };
  if (r.panic || r.died || r.hang) return { skip: true }; // totality is C08's business
  const errors = (r.diags || []).filter((d) => d.level === 'error');
  const viol = [];
  if (!errors.length) {
    const kinds = Object.keys((r.census && r.census.kinds) || {}).filter((k) => k !== 'EmptyIdent').sort();
    if (r.census && r.census.jsx > 0) viol.push({ clause: 'no-jsx-left', diff: 'jsx:' + kinds.join('+'), msg: `JSX nodes left in the output (${kinds.join(', ')}) and no error diagnostic`, observed: r.printed });
    if (r.reparse_ok === false) viol.push({ clause: 'reparses', diff: 'reparse:failed', msg: `printed output does not re-parse as a plain module and no error diagnostic (${r.reparse_err})`, observed: r.printed });
  }
  return { viol, obs: hash((r.printed || '') + '|' + errors.length), nontrivial: true, clauses: ['no-jsx-left', 'reparses'] };
}

module.exports = {
  id: 'C07',
  level: 'model_checking',
  rule: 'exhaustive enumeration of the "legal but unusual" JSX grammar: tag form (html, component, member, this-member, namespaced, dashed, fragment) × every attribute name kind × every attribute value kind (incl. element/fragment values, array forms with holes/spreads/non-identifier modifier strings) × child form, pairs of attributes over a core, pragma-comment variants × option corners, in .jsx and .tsx; each state is transformed by the real visitor; oracle on driver facts: an error diagnostic was reported, or the raw output AST contains no JSX node of any kind and the printed output re-parses with JSX disabled. Inputs the parser rejects are skipped (outside the quantifier). Distinct = distinct printed outputs.',
  assumptions: ['SWC parser (accepts/rejects inputs; re-parse of the output)', 'JSX census visitor over the raw output AST', 'collecting diagnostic emitter'],
  spaces: (tier) => [{ name: 'G:grammar', bounds: { tags: Object.keys(G.TAGS), attr_names: G.ATTR_NAMES, attr_values: Object.keys(G.ATTR_VALUES), children: Object.keys(G.CHILDREN), pragmas: Object.keys(G.PRAGMAS), option_corners: G.OPT_CORNERS }, *gen() { yield* G.cases(tier); } },
    { name: 'H:statement-contexts', bounds: { note: 'every H item (syntactic context ∘ lowering, statement-level forms) alone, and core pairs', items: HG.ALL.length }, *gen() { for (const it of HG.ALL) yield { items: [it] }; for (const a of HG.CORE) for (const b of HG.CORE) if (HG.onceOk([a, b])) yield { items: [a, b] }; for (const t of Object.keys(H.T)) { yield { items: [{ t }], ts: true }; for (const u of Object.keys(H.T)) yield { items: [{ t }, { t: u }], ts: true }; } } }],
  requests, judge,
  *shrink(c) { if (c.items) { for (const items of HG.shrinkItems(c.items)) if (items.length) yield { items, ts: c.ts }; } else yield* G.shrink(c); },
  caseKey: (c) => (c.items ? 'H:' + HG.key(c.items) + (c.ts ? ' {tsx resolveType}' : '') : G.key(c)),
  depth: (c) => c.items ? c.items.length : c.attrs.length + (c.ch !== 'none') + (c.pragma && c.pragma !== 'none' ? 1 : 0),
};
