'use strict';
// C20 — resolveType augments only Vue's defineComponent and never overrides the user.
const R = require('../lib/rspace');
const { canonValue, stable, Names } = require('../lib/canon');

const SETUP = "(props: { a: string }, ctx: SetupContext<(e: 'ev') => void>) => () => null";
const SETUP_PLAIN = '(props: { a: string }) => () => null';
// option-argument shapes. `user` = keys of {props, emits, name} the user supplies (directly, quoted, computed-literal or through a spread)
const SHAPES = {
  noOpts: { args: (s) => `${s}`, user: [] },
  emptyObj: { args: (s) => `${s}, {}`, user: [] },
  other: { args: (s) => `${s}, { inheritAttrs: false }`, user: [] },
  propsIdent: { args: (s) => `${s}, { props: uProps }`, user: ['props'] },
  propsQuoted: { args: (s) => `${s}, { 'props': uProps }`, user: ['props'] },
  propsComputed: { args: (s) => `${s}, { ['props']: uProps }`, user: ['props'] },
  propsShorthand: { args: (s) => `${s}, { props }`, user: ['props'], pre: 'const props = uProps;' },
  emitsIdent: { args: (s) => `${s}, { emits: uEmits }`, user: ['emits'] },
  emitsQuoted: { args: (s) => `${s}, { "emits": uEmits }`, user: ['emits'] },
  nameIdent: { args: (s) => `${s}, { name: 'Own' }`, user: ['name'] },
  nameQuoted: { args: (s) => `${s}, { 'name': 'Own' }`, user: ['name'] },
  nameComputed: { args: (s) => `${s}, { ['name']: 'Own' }`, user: ['name'] },
  nameNotFirst: { args: (s) => `${s}, { inheritAttrs: false, name: 'Own', props: uProps }`, user: ['name', 'props'] },
  allThree: { args: (s) => `${s}, { props: uProps, emits: uEmits, name: 'Own' }`, user: ['props', 'emits', 'name'] },
  spreadAfter: { args: (s) => `${s}, { inheritAttrs: false, ...uAll }`, user: ['props', 'emits', 'name'] },
  spreadBefore: { args: (s) => `${s}, { ...uAll, inheritAttrs: false }`, user: ['props', 'emits', 'name'] },
  spreadOnly: { args: (s) => `${s}, { ...uAll }`, user: ['props', 'emits', 'name'] },
  spreadPartial: { args: (s) => `${s}, { ...uName }`, user: ['name'] },
  // explicit keys next to a spread: the derived keys must still come before every spread
  spreadThenProps: { args: (s) => `${s}, { ...uAll, props: uProps }`, user: ['props', 'emits', 'name'] },
  spreadThenPropsQuoted: { args: (s) => `${s}, { ...uAll, 'props': uProps, inheritAttrs: false }`, user: ['props', 'emits', 'name'] },
  spreadThenEmits: { args: (s) => `${s}, { ...uAll, emits: uEmits }`, user: ['props', 'emits', 'name'] },
  spreadThenName: { args: (s) => `${s}, { ...uAll, name: 'Own' }`, user: ['props', 'emits', 'name'] },
  propsThenSpread: { args: (s) => `${s}, { props: uProps, ...uAll }`, user: ['props', 'emits', 'name'] },
  emitsThenSpread: { args: (s) => `${s}, { emits: uEmits, inheritAttrs: false, ...uAll }`, user: ['props', 'emits', 'name'] },
  spreadPartialThenProps: { args: (s) => `${s}, { ...uName, props: uProps }`, user: ['name', 'props'] },
  twoSpreads: { args: (s) => `${s}, { ...uName, inheritAttrs: false, ...uAll }`, user: ['props', 'emits', 'name'] },
  nameSpreadProps: { args: (s) => `${s}, { name: 'Own', ...uAll, ['props']: uProps }`, user: ['props', 'emits', 'name'] },
  identOpts: { args: (s) => `${s}, uAll`, user: ['props', 'emits', 'name'] },
  identOptsPartial: { args: (s) => `${s}, uName`, user: ['name'] },
  callOpts: { args: (s) => `${s}, mkOpts()`, user: ['props', 'emits', 'name'] },
  condOpts: { args: (s) => `${s}, flag ? uAll : uName`, user: ['props', 'emits', 'name'] },
  // the options literal under a type-only wrapper is still the literal the user wrote
  nameAsConst: { args: (s) => `${s}, { name: 'Own' } as const`, user: ['name'] },
  propsSatisfies: { args: (s) => `${s}, { props: uProps } satisfies object`, user: ['props'] },
  allParen: { args: (s) => `${s}, ({ props: uProps, emits: uEmits, name: 'Own' })`, user: ['props', 'emits', 'name'] },
  emitsNonNull: { args: (s) => `${s}, ({ emits: uEmits } as any)!`, user: ['emits'] },
  otherAsConst: { args: (s) => `${s}, { inheritAttrs: false } as const`, user: [] },
  // accessor / method members count as user-written options too
  propsGetter: { args: (s) => `${s}, { get props() { return uProps; } }`, user: ['props'] },
  propsMethod: { args: (s) => `${s}, { props() { return 1; }, inheritAttrs: false }`, user: ['props'] },
  nameGetter: { args: (s) => `${s}, { get ['name']() { return 'Own'; } }`, user: ['name'] },
  emitsGetter: { args: (s) => `${s}, { get "emits"() { return uEmits; } }`, user: ['emits'] },
  // further positional arguments stay where they are
  threeIdent: { args: (s) => `${s}, uName, 'third'`, user: ['name'], third: true },
  threeObj: { args: (s) => `${s}, { inheritAttrs: false }, 'third', 4`, user: [], third: true },
  threeLitAll: { args: (s) => `${s}, { name: 'Own', props: uProps, emits: uEmits }, 'third'`, user: ['name', 'props', 'emits'], third: true },
  threeLitName: { args: (s) => `${s}, { 'name': 'Own' }, uProps, 4`, user: ['name'], third: true },
  threeCall: { args: (s) => `${s}, mkOpts(), uProps`, user: ['props', 'emits', 'name'], third: true },
  spreadArgs: { args: () => '...uArgs', user: '*', spreadArgs: true },
  spreadRest: { args: (s) => `${s}, ...uRest`, user: '*', spreadArgs: true },
  objectFirst: { args: () => "{ name: 'ObjOwn', setup() { return () => null; } }", user: '*', objectFirst: true },
  identFirst: { args: () => 'uSetup, { inheritAttrs: false }', user: [], identFirst: true },
};
// declaration kinds: tpl(call) ; `decl` = variable declarator name (the name that may be injected)
const DECLS = {
  const: { tpl: (c) => `const Cmp = ${c};\n__out.comp = Cmp;`, decl: 'Cmp' },
  let: { tpl: (c) => `let Cmp = ${c};\n__out.comp = Cmp;`, decl: 'Cmp' },
  var: { tpl: (c) => `var Cmp = ${c};\n__out.comp = Cmp;`, decl: 'Cmp' },
  exportConst: { tpl: (c) => `export const Cmp = ${c};`, decl: 'Cmp' },
  exportDefault: { tpl: (c) => `export default ${c};`, decl: null },
  assign: { tpl: (c) => `let Cmp;\nCmp = ${c};`, decl: null },
  bare: { tpl: (c) => `${c};`, decl: null },
  nestedFn: { tpl: (c) => `function make() { const Inner = ${c}; return Inner; }\nmake();`, decl: 'Inner' },
  multi: { tpl: (c) => `const Before = 1, Cmp = ${c}, After = 2;`, decl: 'Cmp' },
  destructure: { tpl: (c) => `const [Cmp] = [${c}];`, decl: null },
  // the call is an argument of another component's options (it is not the initialiser of any declaration)
  inOuterOptions: { tpl: (c) => `const Outer = defineComponent((props: { z: number }) => () => null, { components: { Child: ${c} } });\n__out.comp = Outer;`, decl: null, pick: 'first', vueOnly: true },
  // another component of the same module, before or after (what one call gets must not depend on the other)
  afterOther: { tpl: (c) => `const Other = defineComponent((props: { z: number }, ctx: SetupContext<(e: 'oz') => void>) => () => null, { name: 'OtherOwn', props: uProps });\nconst Cmp = ${c};\n__out.comp = Cmp;`, decl: 'Cmp', pick: 'last', vueOnly: true },
  beforeOther: { tpl: (c) => `const Cmp = ${c};\nconst Other = defineComponent((props: { z: number }) => () => null);\n__out.comp = Cmp;`, decl: 'Cmp', pick: 'first', vueOnly: true },
};
// provenance of the callee: pre(lude) + callee text + whether it is vue's defineComponent imported by name
const PROV = {
  vue: { pre: "import { defineComponent, SetupContext } from 'vue';", callee: 'defineComponent', vue: true },
  vueWithOthers: { pre: "import { ref, defineComponent, SetupContext, h } from 'vue';", callee: 'defineComponent', vue: true },
  // several import declarations from 'vue' (what a later one names must not undo an earlier one)
  vueThenOthers: { pre: "import { defineComponent } from 'vue';\nimport type { SetupContext } from 'vue';\nimport { ref as unusedRef } from 'vue';", callee: 'defineComponent', vue: true },
  othersThenVue: { pre: "import { ref as unusedRef } from 'vue';\nimport { defineComponent, SetupContext } from 'vue';\nimport { h as unusedH } from 'vue';", callee: 'defineComponent', vue: true },
  // vue's export under another name next to a foreign function called defineComponent
  aliasedPlusForeign: { pre: "import { defineComponent as vueDc, SetupContext } from 'vue';\nimport { defineComponent } from 'other-lib';", callee: 'defineComponent', vue: false },
  aliasedPlusLocal: { pre: "import { defineComponent as vueDc, SetupContext } from 'vue';\nfunction defineComponent(...a) { __out.local.push(a); return a; }", callee: 'defineComponent', vue: false },
  aliased: { pre: "import { defineComponent as dc, SetupContext } from 'vue';", callee: 'dc', vue: 'abstain' },
  aliasedOther: { pre: "import { defineAsyncComponent as defineComponent, SetupContext } from 'vue';", callee: 'defineComponent', vue: false },
  namespace: { pre: "import * as Vue from 'vue';\nimport { SetupContext } from 'vue';", callee: 'Vue.defineComponent', vue: false },
  local: { pre: "import { SetupContext } from 'vue';\nfunction defineComponent(...a) { __out.local.push(a); return a; }", callee: 'defineComponent', vue: false },
  localConst: { pre: "import { SetupContext } from 'vue';\nconst defineComponent = (...a) => { __out.local.push(a); return a; };", callee: 'defineComponent', vue: false },
  // packages whose names merely begin with `vue`
  vueDemi: { pre: "import { defineComponent } from 'vue-demi';\nimport { SetupContext } from 'vue';", callee: 'defineComponent', vue: false },
  vuePrefix: { pre: "import { defineComponent } from 'vuetify';\nimport type { SetupContext } from 'vue';", callee: 'defineComponent', vue: false },
  vueRelative: { pre: "import { defineComponent } from './vue';\nimport { SetupContext } from 'vue';", callee: 'defineComponent', vue: false },
  vueScoped: { pre: "import { defineComponent } from '@vue/composition-api';\nimport { SetupContext } from 'vue';", callee: 'defineComponent', vue: false },
  otherModule: { pre: "import { defineComponent } from 'other-lib';\nimport { SetupContext } from 'vue';", callee: 'defineComponent', vue: false },
  shadowParam: { pre: "import { defineComponent, SetupContext } from 'vue';", callee: 'defineComponent', vue: false, wrap: (body) => `function scope(defineComponent) {\n${body}\n}\nscope((...a) => { __out.local.push(a); return a; });` },
  shadowConst: { pre: "import { defineComponent, SetupContext } from 'vue';", callee: 'defineComponent', vue: false, wrap: (body) => `{\n  const defineComponent = (...a) => { __out.local.push(a); return a; };\n${body}\n}` },
  memberOfLocal: { pre: "import { defineComponent, SetupContext } from 'vue';\nconst lib = { defineComponent: (...a) => { __out.local.push(a); return a; } };", callee: 'lib.defineComponent', vue: false },
};

const USER_PRE = 'const { uProps, uEmits, uAll, uName, mkOpts, flag, uArgs, uRest, uSetup } = __env.user;\n__out.local = [];\n';

function render(c) {
  const sh = SHAPES[c.shape], pv = PROV[c.prov], dk = DECLS[c.decl];
  const setup = c.plain ? SETUP_PLAIN : SETUP;
  const call = `${pv.callee}(${sh.args(setup)})`;
  let body = (sh.pre ? sh.pre + '\n' : '') + dk.tpl(call);
  if (pv.wrap) body = pv.wrap(body.replace(/^export (default )?/gm, (m, d) => (d ? '__out.dflt = ' : '')));
  return `${pv.pre}\n${USER_PRE}${body}\n`;
}
const optsOn = JSON.stringify({ resolveType: true });
const optsOff = JSON.stringify({ resolveType: false });
function requests(c) { const src = render(c); return [{ src, ts: true, want: ['eval'], opts: optsOn }, { src, ts: true, want: ['eval'], opts: optsOff }]; }

function mkEnv() {
  const env = R.makeEnv();
  const names = new Names();
  const uProps = names.reg({ userProp: { type: String } }, 'uProps'), uEmits = names.reg(['userEvent'], 'uEmits');
  const uSetup = names.reg(function uSetup() {}, 'uSetup');
  env.user = {
    uProps, uEmits, uAll: { props: uProps, emits: uEmits, name: 'FromUser', inheritAttrs: true }, uName: { name: 'FromUser' },
    mkOpts: () => ({ props: uProps, emits: uEmits, name: 'FromCall' }), flag: true,
    uArgs: [uSetup, { name: 'FromArgs', props: uProps }], uRest: [{ name: 'FromRest', emits: uEmits }], uSetup,
  };
  env.names = names;
  const foreign = { defineComponent: (...a) => a };
  env.modules = { 'other-lib': foreign, 'vue-demi': foreign, vuetify: foreign, './vue': foreign, '@vue/composition-api': foreign };
  return env;
}

// Vue's defineComponent(options | setup, extraOptions): what the component's options effectively are
function effective(args) {
  const [first, extra] = args;
  if (typeof first === 'function') return Object.assign({ name: first.name }, extra, { setup: first });
  return first;
}

function judge(c, resps) {
  const [on, off] = resps;
  if (on.parse_error || off.parse_error) return { engineError: 'generated module does not parse: ' + (on.parse_error || off.parse_error) + ' :: ' + render(c) };
  const bad = (r) => r.panic || r.died || r.hang || !r.eval_js;
  if (bad(on) || bad(off)) return { skip: true };
  const pv = PROV[c.prov], sh = SHAPES[c.shape], dk = DECLS[c.decl];
  const viol = [];
  if (pv.vue === false) {
    // not vue's defineComponent: resolveType must not touch the module at all
    if (on.printed !== off.printed) viol.push({ clause: 'only-vue', diff: 'augmented:non-vue-call', msg: `a call that is not vue's defineComponent (${c.prov}) was changed by resolveType`, expected: off.printed, observed: on.printed });
    return { viol, obs: 'non-vue:' + (on.printed === off.printed), clauses: ['only-vue'] };
  }
  const env = mkEnv();
  const res = R.run(on.eval_js, env);
  if (res.load) return { viol: [{ clause: 'load', diff: 'exception', msg: res.load }], obs: 'load' };
  const envOff = mkEnv();
  const resOff = R.run(off.eval_js, envOff);
  const pickCall = (calls) => { const v = calls.filter((x) => x.who === 'vue'); return dk.pick === 'last' ? v[v.length - 1] : v[0]; };
  const call = pickCall(res.calls), callOff = pickCall(resOff.calls);
  if (!call || !callOff) return { viol: [{ clause: 'call', diff: 'not-called', msg: 'defineComponent was not called' }], obs: 'nocall' };
  const ctx = { names: env.names, flags: false }, ctxOff = { names: envOff.names, flags: false };
  const eff = effective(call.args), effUser = effective(callOff.args); // with resolveType off the call receives exactly what the user wrote
  const cv = (v, k) => canonValue(v, k, []);
  // user-written options always win
  for (const k of Object.keys(effUser)) {
    if (k === 'setup') continue;
    if (k === 'name' && typeof callOff.args[0] === 'function' && !(callOff.args[1] && 'name' in callOff.args[1])) continue; // Function.name fallback, not user-written
    if (stable(cv(eff[k], ctx)) !== stable(cv(effUser[k], ctxOff))) viol.push({ clause: 'user-wins', diff: `${k}:overridden`, msg: `the user's ${k} option is not what Vue receives`, expected: cv(effUser[k], ctxOff), observed: cv(eff[k], ctx) });
  }
  if (!sh.spreadArgs && (call.args.length !== Math.max(callOff.args.length, 2) && call.args.length !== callOff.args.length || stable(cv(call.args.slice(2), ctx)) !== stable(cv(callOff.args.slice(2), ctxOff)))) viol.push({ clause: 'other-args-untouched', diff: 'args:moved-or-lost', msg: 'arguments after the options argument are not what the user wrote', expected: cv(callOff.args.slice(2), ctxOff), observed: cv(call.args.slice(2), ctx) });
  if (sh.spreadArgs) {
    if (call.args.length !== callOff.args.length) viol.push({ clause: 'spread-args-alone', diff: 'args:count-changed', msg: `a spread argument list was changed (${callOff.args.length} -> ${call.args.length} arguments)`, expected: callOff.args.length, observed: call.args.length });
  }
  if (pv.vue === true && !sh.spreadArgs && !sh.objectFirst && !sh.identFirst) {
    const userHas = (k) => callOff.args[1] && typeof callOff.args[1] === 'object' && k in callOff.args[1];
    // injected keys appear where the user supplied none
    if (!userHas('props')) { const p = eff.props; if (!p || typeof p !== 'object' || !('a' in p)) viol.push({ clause: 'injects', diff: 'props:not-injected', msg: 'props were not derived although the user supplied none', observed: cv(p, ctx) }); }
    if (!c.plain && !userHas('emits')) { if (stable(eff.emits) !== stable(['ev'])) viol.push({ clause: 'injects', diff: 'emits:not-injected', msg: 'emits were not derived although the user supplied none', observed: cv(eff.emits, ctx) }); }
    if (!userHas('name')) {
      const want = dk.decl || '';
      if ((eff.name || '') !== want) viol.push({ clause: 'name', diff: dk.decl ? 'name:not-inferred' : 'name:injected-without-declaration', msg: `component name is ${JSON.stringify(eff.name)}, expected ${JSON.stringify(want)}`, expected: want, observed: eff.name });
    }
  }
  const uniq = new Map();
  for (const v of viol) if (!uniq.has(v.clause + v.diff)) uniq.set(v.clause + v.diff, v);
  return { viol: [...uniq.values()], obs: stable(cv(eff, ctx)), clauses: ['user-wins', 'injects', 'name', 'spread-args-alone', 'other-args-untouched'] };
}

function* cases(tier) {
  for (const prov of Object.keys(PROV)) for (const shape of Object.keys(SHAPES)) for (const decl of Object.keys(DECLS)) for (const plain of [false, true]) {
    if (PROV[prov].wrap && ['exportConst', 'exportDefault'].includes(decl)) continue; // exports cannot be nested
    if (DECLS[decl].vueOnly && PROV[prov].vue !== true) continue; // the companion call uses the same callee
    yield { prov, shape, decl, plain };
  }
}

function* shrink(c) {
  if (c.decl !== 'const') yield Object.assign({}, c, { decl: 'const' });
  if (c.plain === false) yield Object.assign({}, c, { plain: true });
  if (c.prov !== 'vue' && PROV[c.prov].vue === true) yield Object.assign({}, c, { prov: 'vue' });
  if (PROV[c.prov].vue === false && c.prov !== 'local') yield Object.assign({}, c, { prov: 'local' });
  if (c.shape !== 'noOpts') yield Object.assign({}, c, { shape: 'noOpts' });
}

module.exports = {
  id: 'C20',
  level: 'model_checking',
  rule: 'complete product binding provenance of the callee (vue named import, with other specifiers, aliased import, namespace member, same-named local function / const, other module, shadowing parameter / block-scoped const, member of a local object) × option-argument shape (none, {}, literal with each of props/emits/name spelled as identifier / quoted / computed-literal / shorthand, not first, all three, spreads before/after/only/partial, identifier / call / conditional options, spread argument lists, object or identifier as first argument) × declaration kind (const, let, var, export const, export default, assignment, bare call, nested function, multiple declarators, destructuring) × setup with/without SetupContext; each state is transformed with resolveType on and off by the real visitor: non-vue callees must print byte-identically under both settings; for vue callees both outputs are executed and the options Vue effectively receives (defineComponent(setup, extra) semantics) are compared: every option the user wrote keeps the user\'s value, derived props/emits appear only where the user supplied none, the name is the declarator\'s name iff the user gave none, spread argument lists keep their length. Distinct = distinct effective option objects.',
  assumptions: ['Vue defineComponent(setup, extraOptions) merge semantics transcribed', 'mock defineComponent records its arguments', 'with resolveType off the call receives exactly what the user wrote (C09 checks that separately)'],
  spaces: (tier) => [{ name: 'C:call-shapes', bounds: { provenance: Object.keys(PROV), shapes: Object.keys(SHAPES), declarations: Object.keys(DECLS), setup: ['with SetupContext', 'props only'] }, *gen() { yield* cases(tier); } }],
  requests, judge, shrink,
  caseKey: (c) => `${c.prov}:${c.decl}:${c.shape}${c.plain ? ':props-only' : ''}`,
  depth: (c) => (c.prov !== 'vue') + (c.shape !== 'noOpts') + (c.decl !== 'const') + (c.plain ? 0 : 1),
};
