'use strict';
// C12 — the optimize option changes hints only, never what is rendered (differential: optimize off vs on).
const { sequences, product } = require('../lib/spaces');
const { withModule, errStr } = require('../lib/evalmod');
const { canonValue, diff, diffClass, stable, Names } = require('../lib/canon');
const E = require('../lib/espace');

// attribute events: plain attributes + directives + models
const ATTR = Object.assign({}, Object.fromEntries(E.ALL_ATTRS.map((k) => [k, E.ATTRS[k].src])), {
  'v-foo': 'v-foo:arg_m={x}', 'v-show': 'v-show={c}', 'v-html': 'v-html={x}', 'v-model': 'v-model={mv}', 'v-model-arg': "v-model={[o.p, 'arg', ['trim']]}",
  typeExpr: 'type={"checkbox"}', typeDyn: 'type={t}', typeStatic: 'type="radio"',
  'v-slots': 'v-slots={{ foo: h2 }}', 'v-slots-id': 'v-slots={vsl}',
});
const ATTR_KEYS = Object.keys(ATTR);
// listener objects (transformOn) and what may stand on either side of them; `idB` repeats the name of `id`
const LISTENERS = {
  onOne: 'on={{ click: h3 }}', onTwo: "on={{ click: h3, 'update:x': h1 }}", onDup: 'on={{ click: h1, click: h2 }}', onShort: 'on={{ h1, foo: h2 }}', onIdent: 'on={s1}', onSpread: 'on={{ ...s1, click: h3 }}',
  onMethod: 'on={{ click() { return 1; } }}', nativeOne: 'nativeOn={{ foo: h4 }}', nativeDup: "nativeOn={{ foo: h4, 'foo': h1 }}",
};
const BESIDE = { none: null, id: ATTR.id, idB: 'id="b"', onClick1: ATTR.onClick1, clsS: ATTR.clsS, sp1: ATTR.sp1, titleDyn: 'title={x}' };
const ATTR2 = Object.assign({}, LISTENERS, BESIDE);
// children events for element and component hosts alike
const CHILD = {
  text: 'a', bx: '{x}', ux: '{u}', call: '{f()}', el: '<b/>', frag: '<>{x}</>', comp: '<B>{x}</B>', compEl: '<B><i/></B>', compText: '<B>t</B>',
  parenIdent: '{(x)}', parenSlots: '{(vsl)}', identSlots: '{vsl}', callSlots: '{(() => vsl)()}', parenCall: '{(f())}', seqIdent: '{(0, x)}', arrow: '{() => [x]}', objlit: '{{ default: () => [y] }}', spread: '{...xs}', cond: '{c && <i/>}', empty: '{}', nestedDyn: '<div><B>{y}</B></div>',
  // spreads of array literals of length 0/1/2, and a sole call whose callee is named like a vnode factory but is a binding of the module
  spreadArr0: '{...[]}', spreadArr1: '{...[vsl]}', spreadArrFn: '{...[() => [x]]}', spreadArr2: '{...[x, y]}', callH: '{h()}', callHh: '{hh(x)}',
};
const CHILD_KEYS = Object.keys(CHILD);
const HOSTS = ['div', 'Comp', 'frag', 'KeepAlive', 'Unbound', 'input'];
// module statements for history cases (cross-statement state: slot flag stack, counters)
const STMT = {
  fragId: '<>{x}</>', compId: '<Comp>{x}</Comp>', compCall: '<Comp>{f()}</Comp>', nested: '<Comp><B>{x}</B><div/></Comp>', plain: '<div>a</div>', compText: '<Comp>a</Comp>',
  keep: '<KeepAlive><B/></KeepAlive>', compArrow: '<Comp>{() => [x]}</Comp>', deep: '<Comp><div><B>{y}</B></div>t</Comp>', vslots: '<Comp v-slots={{ foo: h2 }}>{x}</Comp>',
  dynAttr: '<div id={x} class={c1} />',
  // statement-level templates: reassigned variable used as its own slot content, and a stale earlier assignment
  selfAssign: (i) => `var a${i} = x; a${i} = y; a${i} = <Comp>{a${i}}</Comp>; __out.k${i} = () => a${i};`,
  staleAssign: (i) => `let b${i} = x; b${i} = y; __out.k${i} = () => <Comp>{b${i}}</Comp>;`,
  selfAssignFn: (i) => `function g${i}(p) { p = [p]; p = <B>{p}</B>; return p; } __out.k${i} = () => g${i}(x);`, compObj: '<Comp>{{ default: () => [x] }}</Comp>', fragNest: '<><Comp>{x}</Comp><B>{u}</B></>',
  // element-level fast paths must not leave state behind for the next element
  tplComp: '<Comp>{`a ${x}`}</Comp>', tplFrag: '<>{`t ${x}`}</>', tplEl: '<p>{`e ${x}`}</p>', singleEl: '<ul>{f()}</ul>', tplNested: '<p><Comp>{`n ${x}`}</Comp></p>', bareJsxAttr: '<Comp icon=<i/>>{x}</Comp>',
};
const STMT_KEYS = Object.keys(STMT);
const OTHER_OPTS = [...product([[true, false], [false, true], [true, false]])].map(([mergeProps, transformOn, enableObjectSlots]) => ({ mergeProps, transformOn, enableObjectSlots }));

const PRELUDE = E.PRELUDE + 'const vsl = { bar: h1 };\nconst h = () => vsl;\nconst hh = (q) => [q];\n';

function spaces(tier) {
  const thorough = tier === 'thorough';
  const aLen = 2, cLen = thorough ? 3 : 2;
  return [
    {
      name: 'E:attrs×children',
      bounds: { hosts: HOSTS, attr_events: ATTR_KEYS.length, max_attrs: aLen, child_events: CHILD_KEYS.length, max_children: cLen, other_options: 'mergeProps × transformOn × enableObjectSlots' + (thorough ? ' (all 8)' : ' (defaults + each single deviation)') },
      *gen() {
        const optsList = thorough ? OTHER_OPTS : OTHER_OPTS.filter((o) => (!o.mergeProps) + (o.transformOn ? 1 : 0) + (!o.enableObjectSlots) <= 1);
        for (const host of HOSTS) {
          const attrSeqs = host === 'frag' ? [[]] : [...sequences(ATTR_KEYS.length, aLen, { distinct: true })].filter((s) => thorough || s.length < 2 || s.some((i) => /^v-|^sp|^on$|nativeOn|cls|sty|onClick|^type/.test(ATTR_KEYS[i])));
          for (const as of attrSeqs) for (const cs of sequences(CHILD_KEYS.length, as.length === 2 ? Math.min(cLen, 1) : cLen, { ok: (idx, pos) => !(pos > 0 && CHILD_KEYS[idx[pos]] === 'text' && CHILD_KEYS[idx[pos - 1]] === 'text') })) {
            for (const o of (as.length + cs.length <= 2 ? optsList : [optsList[0]])) yield { sp: 'E', host, at: as.map((i) => ATTR_KEYS[i]), ch: cs.map((i) => CHILD_KEYS[i]), o };
          }
        }
      },
    },
    {
      name: 'T:listener-objects',
      bounds: { hosts: ['div', 'Comp', 'input'], listeners: Object.keys(LISTENERS), before: Object.keys(BESIDE), after: Object.keys(BESIDE), options: 'transformOn=true × mergeProps', note: 'an on/nativeOn object between two other attributes, which may repeat a name' },
      *gen() {
        for (const host of ['div', 'Comp', 'input']) for (const l of Object.keys(LISTENERS)) for (const b of Object.keys(BESIDE)) for (const a of Object.keys(BESIDE)) for (const mergeProps of [true, false]) {
          yield { sp: 'E', host, at: [b, l, a].filter((k) => k !== 'none'), ch: [], o: { mergeProps, transformOn: true, enableObjectSlots: true } };
        }
      },
    },
    {
      name: 'H:statement-histories',
      bounds: { statements: STMT_KEYS, max_length: thorough ? 4 : 3, note: 'several JSX statements per module: a hint-state leak in an earlier statement must not change what a later one renders' },
      *gen() { for (const seq of sequences(STMT_KEYS.length, thorough ? 4 : 3, { minLen: 1 })) yield { sp: 'H', st: seq.map((i) => STMT_KEYS[i]), o: OTHER_OPTS[0] }; },
    },
  ];
}

function render(c) {
  if (c.sp === 'H') return PRELUDE + c.st.map((k, i) => (typeof STMT[k] === 'function' ? STMT[k](i) : `__out.k${i} = () => (${STMT[k]});`)).join('\n') + '\n';
  const jsx = E.renderJsx(c.host, c.at.map((k) => ATTR[k] || ATTR2[k]), c.ch.map((k) => CHILD[k]));
  return (E.HOSTS[c.host].imports ? E.HOSTS[c.host].imports + '\n' : '') + PRELUDE + `__out.k0 = () => (${jsx});\n`;
}

function requests(c) {
  const src = render(c);
  return [false, true].map((optimize) => ({ src, want: ['eval'], opts: JSON.stringify(Object.assign({}, c.o, { optimize })) }));
}

function observe(r, n) {
  const env = E.makeEnv();
  const ctx = { names: env.names, flags: false };
  return withModule(r.eval_js, env, (out, rec, loadError) => {
    if (loadError) return { load: 'exception:' + loadError.name };
    const res = [];
    for (let i = 0; i < n; i++) {
      try { res.push(canonValue(out['k' + i](), ctx, [])); } catch (e) { res.push({ throws: e.name }); }
    }
    return res;
  });
}

function judge(c, resps) {
  const [a, b] = resps;
  if (a.parse_error || b.parse_error) return { engineError: 'generated case does not parse: ' + (a.parse_error || b.parse_error) };
  const bad = (r) => r.panic || r.died || r.hang || !r.eval_js;
  if (bad(a) && bad(b)) return { skip: true };
  if (bad(a) !== bad(b)) return { viol: [{ clause: 'same-outcome', diff: 'transform:one-side-failed', msg: 'the transform fails under one optimize setting only', expected: !!bad(a), observed: !!bad(b) }], obs: 'fail' };
  const n = c.sp === 'H' ? c.st.length : 1;
  const oa = observe(a, n), ob = observe(b, n);
  const viol = [];
  const d = diff(oa, ob);
  if (d) viol.push({ clause: 'render-equal', diff: 'vnode' + diffClass(d).replace(/^\[\*\]/, ''), msg: `optimize=true renders differently from optimize=false at ${d.path}`, expected: oa, observed: ob });
  return { viol, obs: stable(oa), clauses: ['render-equal'] };
}

function* shrink(c) {
  if (c.sp === 'H') { for (let i = 0; i < c.st.length; i++) if (c.st.length > 1) yield Object.assign({}, c, { st: c.st.slice(0, i).concat(c.st.slice(i + 1)) }); return; }
  for (let i = 0; i < c.at.length; i++) yield Object.assign({}, c, { at: c.at.slice(0, i).concat(c.at.slice(i + 1)) });
  for (let i = 0; i < c.ch.length; i++) {
    const ch = c.ch.slice(0, i).concat(c.ch.slice(i + 1));
    if (!ch.some((k, j) => j > 0 && k === 'text' && ch[j - 1] === 'text')) yield Object.assign({}, c, { ch });
  }
  if (c.host !== 'div' && c.host !== 'Comp') yield Object.assign({}, c, { host: E.HOSTS[c.host].kind === 'component' ? 'Comp' : 'div' });
  const def = OTHER_OPTS[0];
  for (const k of Object.keys(def)) if (c.o[k] !== def[k]) yield Object.assign({}, c, { o: Object.assign({}, c.o, { [k]: def[k] }) });
}

function caseKey(c) {
  if (c.sp === 'H') return 'H:' + c.st.join(' ; ');
  const o = Object.keys(c.o).filter((k) => c.o[k] !== OTHER_OPTS[0][k]).map((k) => `${k}=${c.o[k]}`).join(',');
  return `E:${c.host}[${c.at.join(',')}](${c.ch.join(',')}){${o}}`;
}

module.exports = {
  id: 'C12',
  level: 'model_checking',
  rule: 'BFS over (attribute events incl. directives/models/v-slots) × (child events incl. nested components, fragments, function and object children) on element/component/fragment/KeepAlive hosts × other options, and over histories of several JSX statements per module; every state is transformed twice by the real visitor (optimize off / on), both outputs are executed (slots invoked, directives included) and the canonical vnode trees compared after erasing patchFlag, dynamicProps and the `_` slot entry. Differential oracle: no hand-written expectation. Distinct = distinct canonical renders.',
  assumptions: ['mock Vue runtime', 'node evaluator', 'canonicaliser erases exactly arguments 4-5 of vnode calls and the `_` entry of slot objects'],
  spaces, requests, judge, shrink, caseKey,
  depth: (c) => (c.sp === 'H' ? c.st.length - 1 : c.at.length + c.ch.length),
};
