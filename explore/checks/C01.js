'use strict';
// C01 — every JSX element renders the vnode type and props its source denotes.
const { sequences, boolVectors } = require('../lib/spaces');
const { cleanJsxText } = require('../ref/jsxtext');
const { withModule, errStr } = require('../lib/evalmod');
const { canonValue, diff, diffClass, stable } = require('../lib/canon');
const V = require('../lib/vue');
const E = require('../lib/espace');

const OPT_VECTORS = [...boolVectors(['mergeProps', 'transformOn', 'optimize'])];
const { SYM_ATTR: SYM, SYM_X } = require('../lib/tsyms');
const symOf = (c) => (c.x ? SYM_X : SYM);

function expectedProps(contribs, opts) {
  if (!contribs.length) return null;
  const objs = contribs.map((c) => (c.kind === 'prop' ? { [c.key]: c.value } : c.kind === 'spread' ? c.obj : V.transformOn(c.obj)));
  return opts.mergeProps ? V.mergeProps(...objs) : Object.assign({}, ...objs);
}

// tag uses of one name under different bindings, several per module (classification must be per occurrence)
const USES = {
  unboundU: { tpl: (i) => `__out.k${i} = () => <Item />;`, type: 'resolved:Item' },
  paramU:   { tpl: (i) => `__out.k${i} = (Item) => <Item />;`, type: 'comp:Comp' },
  localU:   { tpl: (i) => `__out.k${i} = () => { const Item = B; return <Item />; };`, type: 'comp:B' },
  unboundL: { tpl: (i) => `__out.k${i} = () => <item />;`, type: 'resolved:item' },
  paramL:   { tpl: (i) => `__out.k${i} = (item) => <item />;`, type: 'comp:Comp' },
  htmlParam:{ tpl: (i) => `__out.k${i} = (div) => <div />;`, type: 'tag:div' },
};
const USE_KEYS = Object.keys(USES);
const COMMENTS = ['/** @jsxImportSource vue */', '/* @jsxRuntime classic */', '/** @jsxFrag Fragment */', '/**\n * @jsxRuntime automatic\n * @jsxImportSource vue\n */', '// @ts-nocheck', '/* eslint-disable */\n/* @vue/component */'];

function spaces(tier) {
  const thorough = tier === 'thorough';
  const mk = (name, hosts, alphabet, maxLen, minLen = 0) => ({
    name,
    bounds: { hosts, alphabet, max_length: maxLen, min_length: minLen, sequences: 'ordered, distinct events', options: 'mergeProps × transformOn × optimize (8 vectors)' },
    *gen() {
      for (const host of hosts) for (const seq of sequences(alphabet.length, maxLen, { distinct: true, minLen })) {
        const attrs = seq.map((i) => alphabet[i]);
        for (const o of OPT_VECTORS) yield { sp: 'A', host, attrs, o };
      }
    },
  });
  const allHosts = Object.keys(E.HOSTS).filter((h) => !E.HOSTS[h].fragment);
  const sp = [
    mk('A:all-hosts', allHosts, E.ALL_ATTRS, thorough ? 2 : 1),
    mk('A:core', thorough ? ['div', 'Comp', 'Unbound', 'iiconPat'] : ['div', 'Comp'], E.CORE_ATTRS, 3, thorough ? 3 : 2),
  ];
  if (!thorough) sp.push(mk('A:core-2', ['Unbound', 'iiconPat', 'member'], E.CORE_ATTRS, 2, 2));
  if (thorough) {
    sp.push(mk('A:full-3', ['div', 'Comp'], E.ALL_ATTRS, 3, 3));
    sp.push(mk('A:merge-4', ['div'], ['id', 'clsS', 'clsD', 'styS', 'styO', 'onClick1', 'onClick2', 'sp1', 'sp2', 'spObj', 'spCall', 'on', 'bool'], 4, 4));
  }
  // transparent wrappers around one value expression (.tsx): same reference answer as the unwrapped case
  const wrappable = E.ALL_ATTRS.filter((k) => E.wrapAttr(E.ATTRS[k].src, 'paren'));
  const W_OPTS = OPT_VECTORS.filter((o) => !o.optimize || (o.mergeProps && !o.transformOn));
  sp.push({
    name: 'W:wrapped-values',
    bounds: { wrappers: Object.keys(E.WRAPS), wrapped: wrappable, companions: thorough ? 'none / one attribute of the full alphabet before or after' : 'none / one core attribute before or after', hosts: ['div', 'Comp'], syntax: 'tsx', options: 'all 8 vectors alone; 5 with a companion' },
    *gen() {
      for (const host of ['div', 'Comp']) for (const k of wrappable) for (const w of Object.keys(E.WRAPS)) {
        for (const o of OPT_VECTORS) yield { sp: 'A', host, attrs: [k], o, w: [0, w] };
        for (const k2 of (thorough ? E.ALL_ATTRS : E.CORE_ATTRS)) if (k2 !== k) for (const o of W_OPTS) {
          yield { sp: 'A', host, attrs: [k, k2], o, w: [0, w] };
          yield { sp: 'A', host, attrs: [k2, k], o, w: [1, w] };
        }
      }
    },
  });
  // a configured vnode factory changes who creates the vnode, not its type and props (and what has to be imported for them)
  sp.push({
    name: 'G:configured-pragma',
    bounds: { pragma: 'hh', hosts: ['div', 'Comp', 'Unbound', 'member'], attrs: thorough ? 'core, ≤2' : 'all ≤1, core pairs on div', options: '8 vectors' },
    *gen() {
      for (const host of ['div', 'Comp', 'Unbound', 'member']) for (const seq of sequences(E.ALL_ATTRS.length, 1, { distinct: true })) for (const o of OPT_VECTORS) yield { sp: 'A', host, attrs: seq.map((i) => E.ALL_ATTRS[i]), o: Object.assign({ pragma: 'hh' }, o) };
      for (const host of (thorough ? ['div', 'Comp'] : ['div'])) for (const seq of sequences(E.CORE_ATTRS.length, 2, { distinct: true, minLen: 2 })) for (const o of OPT_VECTORS) yield { sp: 'A', host, attrs: seq.map((i) => E.CORE_ATTRS[i]), o: Object.assign({ pragma: 'hh' }, o) };
    },
  });
  // comments that look like annotations of other tool chains must leave elements alone
  sp.push({
    name: 'C:leading-comments',
    bounds: { comments: COMMENTS, hosts: ['div', 'Comp', 'Unbound', 'member'], attrs: 'all, ≤1', options: 'defaults and optimize' },
    *gen() { for (let ci = 0; ci < COMMENTS.length; ci++) for (const host of ['div', 'Comp', 'Unbound', 'member']) for (const k of [null].concat(E.ALL_ATTRS)) for (const o of [OPT_VECTORS.find((v) => v.mergeProps && !v.transformOn && !v.optimize), OPT_VECTORS.find((v) => v.mergeProps && !v.transformOn && v.optimize)]) yield { sp: 'A', host, attrs: k ? [k] : [], o, cm: ci }; },
  });
  sp.push({
    name: 'P:tag-uses-per-module',
    bounds: { uses: USE_KEYS, max_length: thorough ? 4 : 3, note: 'several elements with the same tag name under different bindings in one module' },
    *gen() { for (const seq of sequences(USE_KEYS.length, thorough ? 4 : 3, { minLen: 1 })) yield { sp: 'P', uses: seq.map((i) => USE_KEYS[i]) }; },
  });
  const sLen = thorough ? 5 : 4;
  sp.push({
    name: 'S:attribute-strings',
    bounds: { alphabet: SYM.map((s) => s[0]), max_length: sLen, placement: 'title="…" on <div>' },
    *gen() { for (const s of sequences(SYM.length, sLen)) yield { sp: 'S', s }; },
  });
  sp.push({
    name: 'X:exotic-attribute-strings',
    bounds: { alphabet: SYM_X.map((s) => s[0]), max_length: thorough ? 4 : 3, placement: 'title="…" on <div>' },
    *gen() { for (const s of sequences(SYM_X.length, thorough ? 4 : 3)) yield { sp: 'S', s, x: true }; },
  });
  return sp;
}

function requests(c) {
  if (c.sp === 'S') {
    const t = c.s.map((i) => symOf(c)[i][1]).join('');
    return [{ src: E.PRELUDE + `__out.mk = () => <div title="${t}" />;\n`, want: ['eval'], opts: '{}' }];
  }
  if (c.sp === 'P') return [{ src: E.PRELUDE + c.uses.map((u, i) => USES[u].tpl(i)).join('\n') + '\n', want: ['eval'], opts: '{}' }];
  const h = E.HOSTS[c.host];
  const jsx = E.renderJsx(c.host, c.attrs.map((k, i) => (c.w && c.w[0] === i ? E.wrapAttr(E.ATTRS[k].src, c.w[1]) : E.ATTRS[k].src)), []);
  return [{ src: (c.cm !== undefined ? COMMENTS[c.cm] + '\n' : '') + E.renderModule(c.host, jsx), ts: !!c.w, want: ['eval'], opts: E.optsJson(Object.assign({ pattern: h.pattern }, c.o)) }];
}

function abstain(c) {
  if (c.sp !== 'A') return false;
  // the statement defines mergeProps=off and transformOn separately but not listener collisions between them
  if (c.o.transformOn && !c.o.mergeProps) {
    const env = E.makeEnv();
    const contribs = c.attrs.map((k) => E.ATTRS[k].m(env, c.o));
    const onKeys = new Set();
    for (const x of contribs) if (x.kind === 'on') for (const k of Object.keys(V.transformOn(x.obj))) onKeys.add(k);
    if (onKeys.size) for (const x of contribs) {
      const keys = x.kind === 'prop' ? [x.key] : x.kind === 'spread' ? Object.keys(x.obj) : [];
      if (keys.some((k) => onKeys.has(k))) return true;
    }
  }
  return false;
}

function judge(c, resps) {
  const r = resps[0];
  if (r.parse_error) return { engineError: 'generated case does not parse: ' + r.parse_error };
  // a well-formed input of this space for which the transform panics or kills its process has no output that could satisfy the property
  if (r.panic || r.died) return { viol: [{ clause: 'transform-failed', diff: r.panic ? 'panic' : 'process-died', msg: r.panic ? `panic in ${r.panic.stage}: ${r.panic.msg}` : 'the transform killed its process' }], obs: 'transform-failed' };
  if (r.hang || !r.eval_js) return { skip: true };
  if (abstain(c)) return { skip: true };
  const env = E.makeEnv();

  const ctx = { names: env.names, flags: false };
  const viol = [];
  let obs;
  withModule(r.eval_js, env, (out, rec, loadError) => {
    if (loadError) { viol.push({ clause: 'load', diff: 'exception:' + loadError.name, msg: errStr(loadError) }); return; }
    if (c.sp === 'P') {
      const seen = [];
      c.uses.forEach((u, i) => {
        let t;
        try { t = canonValue(out['k' + i](env.bound.Comp), ctx, []); } catch (e) { viol.push({ clause: 'create', diff: 'exception:' + e.name, msg: errStr(e) }); return; }
        seen.push(t && t.type);
        if (stable(t && t.type) !== stable(USES[u].type)) viol.push({ clause: 'type', diff: 'type:different', msg: `vnode type of use ${i} (${u})`, expected: USES[u].type, observed: t && t.type });
      });
      obs = stable(seen);
      return;
    }
    let v;
    try { v = out.mk(); } catch (e) { viol.push({ clause: 'create', diff: 'exception:' + e.name, msg: errStr(e) }); return; }
    const o = canonValue(v, ctx, []);
    obs = stable([o && o.type, o && o.props]);
    if (c.sp === 'S') {
      const e = cleanJsxText(c.s.map((i) => symOf(c)[i][2]).join(''));
      const got = o && o.props && o.props.title;
      if (got !== e) viol.push({ clause: 'attr-string', diff: 'props.title:different', msg: 'attribute string not normalised by the JSX rule', expected: e, observed: got });
      return;
    }
    const eType = E.HOSTS[c.host].type();
    if (stable(o && o.type) !== stable(eType)) viol.push({ clause: 'type', diff: 'type:different', msg: 'vnode type', expected: eType, observed: o && o.type });
    const contribs = c.attrs.map((k) => E.ATTRS[k].m(env, c.o));
    const raw = expectedProps(contribs, c.o);
    // same normalisation Vue's createVNode applies, then the shared canonical form
    const eProps = raw === null ? null : canonValue({ __v_isVNode: true, type: 'x', props: raw, children: null }, ctx, []).props;
    const d = diff(eProps, o && o.props);
    if (d) viol.push({ clause: 'props', diff: 'props' + diffClass(d), msg: `props differ at ${d.path}`, expected: eProps, observed: o && o.props });
  });
  const uniq = new Map();
  for (const v of viol) if (!uniq.has(v.clause + v.diff)) uniq.set(v.clause + v.diff, v);
  return { viol: [...uniq.values()], obs, nontrivial: c.sp === 'S' ? c.s.length > 0 : c.sp === 'P' ? true : c.attrs.length > 0, clauses: c.sp === 'S' ? ['attr-string'] : c.sp === 'P' ? ['type'] : ['type', 'props'] };
}

function* shrink(c) {
  if (c.sp === 'P') { for (let i = 0; i < c.uses.length; i++) if (c.uses.length > 1) yield { sp: 'P', uses: c.uses.slice(0, i).concat(c.uses.slice(i + 1)) }; return; }
  if (c.sp === 'S') {
    for (let i = 0; i < c.s.length; i++) yield { sp: 'S', s: c.s.slice(0, i).concat(c.s.slice(i + 1)), x: c.x };
    for (let i = 0; i < c.s.length; i++) if (!c.x && ['b', '&amp;'].includes(SYM[c.s[i]][0])) { const s = c.s.slice(); s[i] = 0; yield { sp: 'S', s }; }
    return;
  }
  if (c.cm !== undefined) yield Object.assign({}, c, { cm: undefined });
  if (c.w) yield Object.assign({}, c, { w: undefined });
  for (let i = 0; i < c.attrs.length; i++) if (!c.w || c.w[0] !== i) yield Object.assign({}, c, { attrs: c.attrs.slice(0, i).concat(c.attrs.slice(i + 1)), w: c.w && [c.w[0] - (i < c.w[0] ? 1 : 0), c.w[1]] });
  if (c.w && c.w[1] !== 'paren') yield Object.assign({}, c, { w: [c.w[0], 'paren'] });
  if (c.host !== 'div') yield Object.assign({}, c, { host: 'div' });
  // options towards the documented defaults (mergeProps on, transformOn off, optimize off)
  if (!c.o.mergeProps) yield Object.assign({}, c, { o: Object.assign({}, c.o, { mergeProps: true }) });
  if (c.o.transformOn) yield Object.assign({}, c, { o: Object.assign({}, c.o, { transformOn: false }) });
  if (c.o.optimize) yield Object.assign({}, c, { o: Object.assign({}, c.o, { optimize: false }) });
  if (c.o.pragma) { const o = Object.assign({}, c.o); delete o.pragma; yield Object.assign({}, c, { o }); }
}

function caseKey(c) {
  if (c.sp === 'P') return 'P:' + c.uses.join(',');
  if (c.sp === 'S') return (c.x ? 'X:' : 'S:') + c.s.map((i) => symOf(c)[i][0]).join('.');
  const o = Object.keys(c.o).filter((k) => c.o[k]).map((k) => (k === 'pragma' ? 'pragma=' + c.o[k] : k)).join('+') || '-';
  return `A:${c.host}[${c.attrs.map((k, i) => (c.w && c.w[0] === i ? c.w[1] + '(' + k + ')' : k)).join(',')}]{${o}}${c.cm !== undefined ? ' after ' + JSON.stringify(COMMENTS[c.cm]) : ''}`;
}

module.exports = {
  id: 'C01',
  level: 'model_checking',
  rule: 'explicit-state BFS over attribute-sequence histories (ordered sequences of distinct attribute events, shortest first) × host kinds × option vectors; every state is transformed by the real visitor, the output is executed against a mock Vue runtime, and vnode type + props (after Vue\'s own class/style normalisation) are compared with the reference fold (Vue mergeProps when mergeProps is on, Object.assign when off, transformOn contributions); plus every string over the whitespace alphabet as an attribute string value against the reference JSX text rule. Non-trivial = non-empty history; distinct = distinct canonical (type, props).',
  assumptions: ['mock Vue runtime (createVNode, mergeProps, normalizeClass/Style, resolveComponent, transformOn helper)', 'node evaluator', 'reference props fold and JSX text rule written from the property statement'],
  spaces, requests, judge, shrink, caseKey,
  depth: (c) => (c.sp === 'S' ? c.s.length : c.sp === 'P' ? c.uses.length - 1 : c.attrs.length),
};
