'use strict';
// C14 — options have their documented defaults and only their documented effect.
const { product, sequences } = require('../lib/spaces');
const { hash } = require('../lib/canon');
const E = require('../lib/espace');

const BOOLS = ['transformOn', 'optimize', 'mergeProps', 'enableObjectSlots', 'resolveType'];
const DEFAULTS = { transformOn: false, optimize: false, mergeProps: true, enableObjectSlots: true, resolveType: false, pragma: null, customElementPatterns: [] };

// one probe module per option: its printed output reveals the option's effective value
const PROBES = [
  { name: 'transformOn', src: 'const a = <div on={{ click: h }} />;', ts: false },
  { name: 'optimize', src: 'const a = <div id={x} />;', ts: false },
  { name: 'mergeProps', src: 'const a = <div class="a" {...s} class={c} />;', ts: false },
  { name: 'enableObjectSlots', src: 'const a = <Comp>{x}</Comp>;', ts: false },
  { name: 'resolveType', src: "import { defineComponent } from 'vue';\nconst C = defineComponent((props: { a: string }) => () => null);", ts: true },
  { name: 'pragma', src: 'const a = <><div /></>;', ts: false },
  { name: 'customElementPatterns', src: 'const a = <i-icon>t</i-icon>;', ts: false },
];
const PROBE_SRC = (p) => (p.ts ? p.src : 'const { x, s, c, h, Comp } = __env.bound;\n' + p.src) + '\n';

function explicitOf(cfg) {
  const e = Object.assign({}, DEFAULTS);
  for (const k of Object.keys(DEFAULTS)) if (cfg && Object.prototype.hasOwnProperty.call(cfg, k) && cfg[k] !== undefined) e[k] = cfg[k];
  if (e.pragma === null) delete e.pragma;
  return e;
}

function* configs(tier) {
  const tri = [undefined, true, false];
  const thorough = tier === 'thorough';
  for (const bools of product(BOOLS.map(() => tri))) {
    const absent = bools.filter((b) => b === undefined).length;
    for (const pragma of [undefined, 'hh', null]) for (const pats of [undefined, [], ['^i-'], ['^zz$', '^i\\x2d\\w+$']]) for (const unknown of [false, true]) {
      // quick tier: the full 3^5 boolean cube with the other dimensions at their first value, and the other dimensions fully where ≥3 booleans are absent
      if (!thorough && !((pragma === undefined && pats === undefined && !unknown) || absent >= 4)) continue;
      const cfg = {};
      BOOLS.forEach((k, i) => { if (bools[i] !== undefined) cfg[k] = bools[i]; });
      if (pragma !== undefined) cfg.pragma = pragma;
      if (pats !== undefined) cfg.customElementPatterns = pats;
      if (unknown) cfg.someFutureOption = { nested: [1, 2] };
      yield cfg;
    }
  }
}

// only what the statement demands: an invalid *pattern* is rejected when the configuration is read
const INVALID = ['{"customElementPatterns":["("]}', '{"customElementPatterns":["^i-","[a"]}', '{"customElementPatterns":["(?<x"],"optimize":true}', '{"customElementPatterns":["a{2,1}"]}', '{"customElementPatterns":["\\\\"]}', '{"customElementPatterns":["*"]}', '{"customElementPatterns":[1]}', '{"customElementPatterns":[null,"^i-"]}', '{"customElementPatterns":[["^a"]]}', '{"customElementPatterns":["(?P<n>"]}', '{"customElementPatterns":["^i-","\\\\p{NoSuchClass}"]}'];

// ---- (b) non-interference space
const NI_ATTRS = ['id', 'bident', 'clsS', 'clsD', 'styO', 'onClick1', 'onClick2', 'sp1', 'spObj', 'on', 'nativeOn', 'key', 'ref', 'xlink'];
const NI_EXTRA = { onNs: 'on:click={h1}', nativeOnNs: 'nativeOn:x={h2}', vmodel: 'v-model={mv}', vfoo: 'v-foo={x}', vslots: 'v-slots={{ foo: h2 }}' };
const NI_CHILDREN = { elDir: '<p v-show={c} />', inputModel: '<input v-model={mv} />', compDir: '<B v-foo={x} />', text: 'a', bx: '{x}', call: '{f()}', el: '<b/>', arrow: '{() => [x]}', objlit: '{{ default: () => [x] }}', comp: '<B>{y}</B>', icon: '<i-icon/>', spread: '{...xs}', member: '{o.p}',
  // a bound identifier that is not the sole child of a component: nested in a plain element, or next to another child (one child event)
  elBx: '<span>{x}</span>', bxEl: '{x}<b/>', elCall: '<span>{f()}</span>' };
const NI_HOSTS = ['div', 'Comp', 'iicon', 'memberFoo', 'IiconNoLeak'];
const attrSrc = (k) => (NI_EXTRA[k] ? NI_EXTRA[k] : E.ATTRS[k].src);
const attrName = (k) => (NI_EXTRA[k] ? k : E.ATTRS[k].src.split(/[=\s{]/)[0]);
const VECTORS = [...product([[false, true], [false, true], [true, false], [true, false], [false, true], [false, true]])].map(([transformOn, optimize, mergeProps, enableObjectSlots, resolveType, pattern]) => ({ transformOn, optimize, mergeProps, enableObjectSlots, resolveType, pattern }));

// ---- (c) .tsx modules that contain no call to Vue's defineComponent: resolveType has nothing to govern
const RT_MODULES = {
  jsxOnly: "const a = <div id={x as any}>{y!}</div>;",
  typesOnly: "interface P { a: string }\ntype Q = P & { b?: number };\nexport const v: Q = { a: 's' };",
  localFn: "function defineComponent(s: any, o?: any) { return [s, o]; }\nexport const C = defineComponent((props: { a: string }) => () => null);",
  otherLib: "import { defineComponent } from 'other-lib';\nexport const C = defineComponent((props: { a: string }) => () => null);",
  namespace: "import * as Vue from 'vue';\nexport const C = Vue.defineComponent((props: { a: string }) => () => null);",
  shadowParam: "import { defineComponent } from 'vue';\nexport function scope(defineComponent: any) { const Inner = defineComponent((props: { a: string }, ctx: SetupContext<(e: 'x') => void>) => () => null); return Inner; }",
  shadowInnerFn: "import { defineComponent } from 'vue';\nexport function scope() { function defineComponent(s: any) { return s; } const Inner = defineComponent((props: { a: string }) => () => <i />); return Inner; }",
  shadowArrowParam: "import { defineComponent } from 'vue';\nexport const scope = (defineComponent: any) => defineComponent((props: { a: string }) => null);",
  shadowCatch: "import { defineComponent } from 'vue';\nexport function scope() { try { throw 0; } catch (defineComponent: any) { return defineComponent((props: { a: string }) => null); } }",
  aliasedOther: "import { defineAsyncComponent as defineComponent } from 'vue';\nexport const C = defineComponent((props: { a: string }) => () => null);",
};
const RT_VECTORS = [...product([[false, true], [false, true], [true, false], [true, false]])].map(([transformOn, optimize, mergeProps, enableObjectSlots]) => ({ transformOn, optimize, mergeProps, enableObjectSlots }));

function features(c) {
  const names = c.at.map(attrName);
  const f = { transformOn: names.includes('on') || names.includes('nativeOn') };
  f.mergeProps = c.at.some((k) => k === 'sp1' || k === 'spObj') || names.some((n, i) => names.indexOf(n) !== i) || (f.transformOn);
  const component = c.host === 'Comp' || c.host === 'iicon' || c.host === 'memberFoo' || c.host === 'IiconNoLeak'; // `I-icon` matches no pattern (the inline flag of the first one ends with it) // a member tag is never a custom element: patterns must not touch it
  // the option governs components whose sole child is an identifier or a call (here: on the host or on a nested component)
  f.enableObjectSlots = (component && c.ch.length === 1 && ['bx', 'call'].includes(c.ch[0])) || c.ch.includes('comp');
  f.pattern = c.host === 'iicon' || c.ch.includes('icon');
  f.resolveType = false;
  return f;
}

function niSrc(c) {
  const jsx = E.renderJsx(c.host === 'iicon' ? 'iicon' : c.host, c.at.map(attrSrc), c.ch.map((k) => NI_CHILDREN[k]));
  return E.PRELUDE + `__out.mk = () => (${jsx});\n`;
}
const vecOpts = (v) => JSON.stringify(Object.assign({ transformOn: v.transformOn, optimize: v.optimize, mergeProps: v.mergeProps, enableObjectSlots: v.enableObjectSlots, resolveType: v.resolveType }, v.pattern ? { customElementPatterns: ['(?i)^zz-', '^i-', '^foo'] } : {}));

function requests(c) {
  if (c.sp === 'D') {
    const reqs = [];
    const exp = JSON.stringify(explicitOf(c.cfg));
    for (const entry of ['visitor', 'plugin']) for (const p of PROBES) {
      reqs.push({ src: PROBE_SRC(p), ts: p.ts, entry, opts: c.cfg === null ? undefined : JSON.stringify(c.cfg) });
      reqs.push({ src: PROBE_SRC(p), ts: p.ts, entry, opts: exp });
    }
    return reqs;
  }
  if (c.sp === 'R') return [false, true].map((resolveType) => ({ src: "import type { SetupContext } from 'vue';\n" + RT_MODULES[c.m] + '\n', ts: true, opts: JSON.stringify(Object.assign({ resolveType }, c.v)) }));
  if (c.sp === 'I') return ['visitor', 'plugin'].map((entry) => ({ src: PROBE_SRC(PROBES[1]), entry, opts: c.json }));
  return VECTORS.map((v) => ({ src: niSrc(c), opts: vecOpts(v) }));
}

function judge(c, resps) {
  const viol = [];
  if (c.sp === 'D') {
    let k = 0;
    const seen = [];
    for (const entry of ['visitor', 'plugin']) for (const p of PROBES) {
      const a = resps[k++], b = resps[k++];
      if (a.parse_error || b.parse_error) return { engineError: 'probe does not parse: ' + (a.parse_error || b.parse_error) };
      // every generated configuration is valid (the patterns are valid regular expressions, whatever JSON escapes spell them)
      if (a.opts_error) { viol.push({ clause: 'config-accepted', diff: `${entry}:rejected`, msg: `valid configuration rejected by the ${entry} entry: ${a.opts_error}` }); continue; }
      if (b.opts_error) return { engineError: 'explicit config rejected: ' + b.opts_error };
      if (a.panic || b.panic || a.died || b.died) continue;
      seen.push(hash(a.printed || ''));
      if (a.printed !== b.printed) viol.push({ clause: 'defaults', diff: `${p.name}:differs-from-documented-default`, msg: `[${entry}] probe for ${p.name}: output under this configuration differs from the output under the same configuration with every absent key set to its documented default`, expected: b.printed, observed: a.printed });
    }
    const uniq = new Map();
    for (const v of viol) if (!uniq.has(v.clause + v.diff)) uniq.set(v.clause + v.diff, v);
    return { viol: [...uniq.values()], obs: seen.join(','), clauses: ['defaults', 'config-accepted'] };
  }
  if (c.sp === 'I') {
    resps.forEach((r, i) => {
      if (!r.opts_error) viol.push({ clause: 'invalid-rejected', diff: `${i ? 'plugin' : 'visitor'}:accepted`, msg: `invalid configuration ${c.json} was accepted by the ${i ? 'plugin' : 'visitor'} entry`, observed: r.printed });
      else if (r.printed !== undefined) viol.push({ clause: 'invalid-rejected', diff: 'output-despite-error', msg: 'a transform output exists although the configuration was refused' });
    });
    return { viol, obs: hash(JSON.stringify(resps.map((r) => !!r.opts_error)) + c.json), clauses: ['invalid-rejected'] };
  }
  if (c.sp === 'R') {
    for (const r of resps) if (r.parse_error) return { engineError: 'module does not parse: ' + r.parse_error };
    const [off, on] = resps;
    if (!(off.panic || off.died || on.panic || on.died) && off.printed !== on.printed) viol.push({ clause: 'non-interference', diff: 'resolveType:changes-module-without-vue-defineComponent', msg: "resolveType changes a module that contains no call to Vue's defineComponent with a typed setup function", expected: off.printed, observed: on.printed });
    return { viol, obs: hash((off.printed || '') + '|' + (on.printed || '')), clauses: ['non-interference'] };
  }
  // non-interference
  for (const r of resps) if (r.parse_error) return { engineError: 'case does not parse: ' + r.parse_error };
  const f = features(c);
  const idx = new Map(VECTORS.map((v, i) => [JSON.stringify(v), i]));
  const outs = resps.map((r) => (r.panic || r.died ? null : r.printed));
  for (let i = 0; i < VECTORS.length; i++) for (const opt of ['transformOn', 'mergeProps', 'enableObjectSlots', 'resolveType', 'pattern']) {
    if (f[opt]) continue; // the input uses the feature this option governs
    const v = VECTORS[i];
    if (v[opt] !== (opt === 'mergeProps' || opt === 'enableObjectSlots')) continue; // compare each pair once: from the option's default side
    const j = idx.get(JSON.stringify(Object.assign({}, v, { [opt]: !v[opt] })));
    if (outs[i] === null || outs[j] === null) continue;
    if (outs[i] !== outs[j]) { viol.push({ clause: 'non-interference', diff: `${opt}:changes-output-of-input-not-using-it`, msg: `toggling ${opt} changes the output although the input does not use the feature it governs (base ${JSON.stringify(v)})`, expected: outs[i], observed: outs[j] }); }
  }
  const uniq = new Map();
  for (const v of viol) if (!uniq.has(v.clause + v.diff)) uniq.set(v.clause + v.diff, v);
  return { viol: [...uniq.values()], obs: hash(outs.join('|')), clauses: ['non-interference'] };
}

function spaces(tier) {
  const thorough = tier === 'thorough';
  return [
    { name: 'D:config-spellings×probes', bounds: { booleans: BOOLS, each: 'absent|true|false', pragma: 'absent|"hh"|null', patterns: 'absent|[]|["^i-"]', unknown_key: 'absent|present', entries: ['visitor (serde_json::from_str::<Options>)', 'the real plugin entry source compiled natively'], probes: PROBES.map((p) => p.name) }, *gen() { yield { sp: 'D', cfg: null }; for (const cfg of configs(tier)) yield { sp: 'D', cfg }; } },
    { name: 'I:invalid-configs', bounds: { configs: INVALID }, *gen() { for (const json of INVALID) yield { sp: 'I', json }; } },
    { name: 'R:resolveType-non-interference', bounds: { modules: Object.keys(RT_MODULES), other_options: '2^4 boolean vectors' }, *gen() { for (const m of Object.keys(RT_MODULES)) for (const v of RT_VECTORS) yield { sp: 'R', m, v }; } },
    {
      name: 'N:non-interference',
      bounds: { hosts: NI_HOSTS, attrs: NI_ATTRS.concat(Object.keys(NI_EXTRA)), max_attrs: 2, children: Object.keys(NI_CHILDREN), max_children: thorough ? 2 : 1, vectors: '2^5 booleans × pattern on/off = 64 per input' },
      *gen() {
        const AK = NI_ATTRS.concat(Object.keys(NI_EXTRA));
        const CK = Object.keys(NI_CHILDREN);
        for (const host of NI_HOSTS) for (const as of sequences(AK.length, 2, { distinct: true })) for (const cs of sequences(CK.length, thorough ? 2 : 1, { ok: (idx, pos) => !(pos > 0 && CK[idx[pos]] === 'text' && CK[idx[pos - 1]] === 'text') })) {
          if (!thorough && as.length === 2 && cs.length === 1 && !['bx', 'arrow', 'objlit', 'comp', 'elDir', 'inputModel', 'compDir', 'elBx', 'bxEl'].includes(CK[cs[0]])) continue;
          yield { sp: 'N', host, at: as.map((i) => AK[i]), ch: cs.map((i) => CK[i]) };
        }
      },
    },
  ];
}

function* shrink(c) {
  if (c.sp === 'D' && c.cfg) for (const k of Object.keys(c.cfg)) { const cfg = Object.assign({}, c.cfg); delete cfg[k]; yield { sp: 'D', cfg }; }
  if (c.sp === 'R') { for (const k of Object.keys(c.v)) if (c.v[k] !== DEFAULTS[k]) yield Object.assign({}, c, { v: Object.assign({}, c.v, { [k]: DEFAULTS[k] }) }); }
  if (c.sp === 'N') {
    for (let i = 0; i < c.at.length; i++) yield Object.assign({}, c, { at: c.at.slice(0, i).concat(c.at.slice(i + 1)) });
    for (let i = 0; i < c.ch.length; i++) yield Object.assign({}, c, { ch: c.ch.slice(0, i).concat(c.ch.slice(i + 1)) });
    if (c.host !== 'div') yield Object.assign({}, c, { host: 'div' });
    if (c.host === 'iicon') yield Object.assign({}, c, { host: 'Comp' });
  }
}

module.exports = {
  id: 'C14',
  level: 'model_checking',
  rule: 'exhaustive enumeration of (D) configuration spellings - each boolean absent/true/false, pragma absent/"hh"/null, patterns absent/[]/["^i-"], unknown key, plus no configuration at all - each applied, through the visitor\'s serde path and through the real plugin entry compiled natively, to one probe module per option and compared byte-for-byte with the same probes under the configuration with every absent key replaced by its documented default; (I) invalid configurations must be refused by both entries with no output; (N) every element state (host × ≤2 attribute events × child events) is transformed under all 64 vectors (2^5 booleans × pattern on/off) and for every option whose governed feature the input does not use (classified by the generator) the outputs on both sides of the toggle must be byte-identical. Distinct = distinct printed-output vectors.',
  assumptions: ['documented defaults taken from the property statement / README', 'feature classification by the generator\'s abstract descriptors', 'plugin entry exercised natively through the swc_core shim (no WASM host)'],
  spaces, requests, judge, shrink,
  caseKey: (c) => (c.sp === 'D' ? 'D:' + (c.cfg === null ? '(no config)' : JSON.stringify(c.cfg)) : c.sp === 'I' ? 'I:' + c.json : c.sp === 'R' ? `R:${c.m} ${JSON.stringify(c.v)}` : `N:${c.host}[${c.at.join(',')}](${c.ch.join(',')})`),
  depth: (c) => (c.sp === 'D' ? (c.cfg ? Object.keys(c.cfg).length : 0) : c.sp === 'I' || c.sp === 'R' ? 1 : c.at.length + c.ch.length),
};
