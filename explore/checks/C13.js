'use strict';
// C13 — patch flags and dynamic-prop lists are sound update hints (the documented contract, checked on
// the observed arguments 2/4/5 of vnode calls and the `_` entry of slot objects).
const { multisets, sequences } = require('../lib/spaces');
const { withModule, errStr } = require('../lib/evalmod');
const { stable, canonValue } = require('../lib/canon');
const E = require('../lib/espace');

const F = { TEXT: 1, CLASS: 2, STYLE: 4, PROPS: 8, FULL_PROPS: 16, HYDRATE_EVENTS: 32, STABLE_FRAGMENT: 64, KEYED_FRAGMENT: 128, UNKEYED_FRAGMENT: 256, NEED_PATCH: 512, DYNAMIC_SLOTS: 1024 };
const ALL_BITS = Object.values(F).reduce((a, b) => a | b, 0);

// ---- atom alphabet: name × abstract value kind (decided here, never by the code's own constant-ness test)
const NAMES = ['class', 'style', 'key', 'ref', 'onClick', 'onFoo', 'onUpdate:modelValue', 'id', 'xlink:href'];
const KINDS = {
  static: { v: '="s"', dyn: false },
  bool: { v: '', dyn: false },
  lit: { v: '={1}', dyn: false },
  arr: { v: '={[1, "a"]}', dyn: false },
  obj: { v: '={{ a: 1 }}', dyn: false },
  dyn: { v: '={x}', dyn: true },
  dynCall: { v: '={f()}', dyn: true },
  // type-only wrappers change nothing at run time: a wrapped dynamic value is still dynamic (.tsx)
  dynAs: { v: '={x as any}', dyn: true, ts: true, only: ['class', 'id', 'style', 'onClick', 'key'] },
  dynNN: { v: '={x!}', dyn: true, ts: true, only: ['class', 'id'] },
  dynParen: { v: '={(x)}', dyn: true, only: ['class', 'id', 'ref'] },
  arrDynConst: { v: '={[x, 1] as const}', dyn: true, ts: true, only: ['class', 'id', 'style'] },
  objDynConst: { v: '={{ a: x } as const}', dyn: true, ts: true, only: ['class', 'id', 'style'] },
  objShorthandUndef: { v: '={{ undefined }}', dyn: false, only: ['id', 'style'] },
  objShorthand: { v: '={{ x }}', dyn: true, only: ['class', 'id', 'style'] },
  objSpread: { v: '={{ ...o }}', dyn: true, only: ['class', 'id', 'style'] },
  objComputed: { v: '={{ [x]: 1 }}', dyn: true, only: ['class', 'id'] },
  objMethod: { v: '={{ m() { return x; } }}', dyn: true, only: ['id'] },
  arrSpread: { v: '={[...xs]}', dyn: true, only: ['class', 'id'] },
  arrHole: { v: '={[, x]}', dyn: true, only: ['id'] },
  tplConst: { v: '={`t`}', dyn: false, only: ['id', 'class'] },
  tplDyn: { v: '={`t${x}`}', dyn: true, only: ['id', 'class'] },
  arrAsConst: { v: '={[1, 2] as const}', dyn: false, ts: true, only: ['id'] },
};
// ordinary props whose names merely begin like a special one (ref, key, on + lower-case letter, class, style)
const LOOKALIKES = ['referrerpolicy', 'refresh', 'keyboard', 'once', 'classes', 'styles'];
const ATOMS = [];
for (const n of NAMES) for (const k of Object.keys(KINDS)) {
  if (k === 'dynCall' && !['class', 'id', 'onClick'].includes(n)) continue;
  if (KINDS[k].only && !KINDS[k].only.includes(n)) continue;
  ATOMS.push({ id: `${n}/${k}`, src: n + KINDS[k].v, name: n, dyn: KINDS[k].dyn, ts: !!KINDS[k].ts });
}
for (const n of LOOKALIKES) for (const k of ['static', 'dyn']) ATOMS.push({ id: `${n}/${k}`, src: n + KINDS[k].v, name: n, dyn: KINDS[k].dyn, ts: false });
const SPECIALS = [
  { id: 'spread', src: '{...s1}', special: 'fullprops' },
  { id: 'spreadObj', src: "{...{ id: 'z' }}", special: 'fullprops' },
  { id: 'v-model', src: 'v-model={mv}', special: 'model' },
  { id: 'v-model-computed', src: 'v-model={[mv, dyn]}', special: 'fullprops', model: true },
  { id: 'v-foo', src: 'v-foo={x}', special: 'dir' },
  { id: 'v-show', src: 'v-show={c}', special: 'dir' },
  { id: 'v-html', src: 'v-html={x}', special: 'prop', name: 'innerHTML' },
  { id: 'v-text', src: 'v-text={x}', special: 'prop', name: 'textContent' },
  { id: 'on', src: 'on={{ click: h3 }}', special: 'on' },
  { id: 'nativeOn', src: 'nativeOn={{ foo: h4 }}', special: 'on' },
];
const ALPHA = ATOMS.concat(SPECIALS);
const MERGEABLE = new Set(['class', 'style', 'onClick']);

function okMultiset(idx) {
  const seen = new Set();
  for (const i of idx) {
    const a = ALPHA[i];
    const n = a.name || a.id;
    if (seen.has(n) && !MERGEABLE.has(n)) return false;
    seen.add(n);
  }
  // at most one model directive per element
  if (idx.filter((i) => ALPHA[i].special === 'model' || ALPHA[i].model).length > 1) return false;
  return true;
}

// ---- slot trees
// node := {c: [child…]} component, children kinds: 'bx' bound ident, 'ux' unbound ident, 'call', 'text', 'el', or nested {c:[…]} / {e:[…]} (plain element wrapper)
const LEAVES = ['bx', 'ux', 'call', 'text', 'el'];
function* trees(depth) {
  // children lists of length 1..2
  const kids = function* (d) {
    for (const l of LEAVES) yield l;
    if (d > 0) { for (const t of trees(d - 1)) yield t; for (const t of trees(d - 1)) yield { e: [t] }; }
  };
  const ks = [...kids(depth)];
  for (const a of ks) yield { c: [a] };
  for (const a of ks) for (const b of ks) if (typeof a === 'string' || typeof b === 'string') yield { c: [a, b] };
}
const LEAF_SRC = { bx: '{x}', ux: '{u}', call: '{f()}', text: 'txt', el: '<b/>' };
// every component of the tree may carry an attribute whose value is itself JSX (bare or braced): props, not slot content
const TREE_ATTRS = { none: '', bare: ' icon=<i/>', braced: ' icon={<i/>}', bareComp: ' icon=<B>{y}</B>', bareFrag: ' icon=<>t</>' };
function treeSrc(t, names, attr = '') {
  if (typeof t === 'string') return LEAF_SRC[t];
  if (t.e) return `<div>${t.e.map((k) => treeSrc(k, names, attr)).join('')}</div>`;
  const tag = names.pop();
  return `<${tag}${attr}>${t.c.map((k) => treeSrc(k, names, attr)).join('')}</${tag}>`;
}
function needsDynamic(t) { // does the slot of component node t need `_: 2`?
  const walk = (k) => (typeof k === 'string' ? k === 'bx' : k.e ? k.e.some(walk) : k.c.some(walk));
  return t.c.some(walk);
}
function treeKey(t) { return typeof t === 'string' ? t : t.e ? `div(${t.e.map(treeKey).join(',')})` : `C(${t.c.map(treeKey).join(',')})`; }

function spaces(tier) {
  const thorough = tier === 'thorough';
  const size = 3;
  const sp = [
    {
      name: 'F:attribute-multisets',
      bounds: { atoms: ALPHA.length, names: NAMES, kinds: Object.keys(KINDS), specials: SPECIALS.map((s) => s.id), max_size: size, hosts: ['div', 'Comp'], options: 'transformOn × mergeProps (optimize on)' },
      *gen() {
        for (const host of ['div', 'Comp']) for (const ms of multisets(ALPHA.length, size)) {
          if (!okMultiset(ms)) continue;
          const usesOn = ms.some((i) => ALPHA[i].special === 'on');
          for (const ton of [false, true]) for (const mp of [true, false]) {
            // quick tier: at size 3 the option vector is varied only where it can matter (on/nativeOn present) or is the default
            if (!thorough && ms.length === 3 && !(usesOn || (!ton && mp))) continue;
            yield { sp: 'F', host, at: ms.map((i) => ALPHA[i].id), ton, mp };
          }
        }
      },
    },
    {
      name: 'F:ordered-pairs-and-triples-core',
      bounds: { note: 'ordered sequences (order can matter for merging) over a core of the alphabet', max_length: thorough ? 3 : 2 },
      *gen() {
        const core = ALPHA.map((a, i) => i).filter((i) => ALPHA[i].special || ['class/dyn', 'class/static', 'style/dyn', 'onClick/dyn', 'onFoo/dyn', 'id/dyn', 'id/static', 'ref/dyn', 'key/dyn', 'xlink:href/dyn', 'onUpdate:modelValue/dyn'].includes(ALPHA[i].id));
        for (const host of ['div', 'Comp']) for (const seq of sequences(core.length, thorough ? 3 : 2, { minLen: 2, distinct: true })) {
          const ids = seq.map((j) => core[j]);
          if (!okMultiset(ids)) continue;
          if (ids.every((v, k) => k === 0 || ids[k - 1] <= v)) continue; // sorted ones are in the multiset space
          for (const ton of [false, true]) yield { sp: 'F', host, at: ids.map((i) => ALPHA[i].id), ton, mp: true };
        }
      },
    },
    {
      name: 'P:after-an-earlier-element',
      bounds: { primers: Object.keys(PRIMERS), hosts: ['div', 'Comp', 'memberNative'], atoms: 'every dynamic / special atom, ≤1, plus class+style pairs', note: 'an earlier statement lowers another element first (same last tag name in another form, a component, a fragment); the hints of the later element must still cover it' },
      *gen() {
        const dynIdx = ALPHA.map((a, i) => i).filter((i) => ALPHA[i].dyn || ALPHA[i].special);
        for (const pre of Object.keys(PRIMERS)) for (const host of ['div', 'Comp', 'memberNative']) {
          for (const i of dynIdx) yield { sp: 'F', host, at: [ALPHA[i].id], ton: false, mp: true, pre };
          yield { sp: 'F', host, at: ['class/dyn', 'style/dyn'], ton: false, mp: true, pre };
          yield { sp: 'F', host, at: ['id/dyn', 'class/dyn'], ton: false, mp: true, pre };
        }
      },
    },
    {
      name: 'F:repeated-names',
      bounds: { note: 'the same non-mergeable name written twice with different value kinds (either order), optionally with one more atom; which occurrence wins is observed, not assumed', options: 'transformOn off × mergeProps on/off' },
      *gen() {
        const byName = {};
        ALPHA.forEach((a, i) => { if (!a.special && !MERGEABLE.has(a.name) && a.name !== 'key' && a.name !== 'ref') (byName[a.name] = byName[a.name] || []).push(i); });
        const others = ALPHA.map((a, i) => i).filter((i) => ['class/dyn', 'id/dyn', 'ref/dyn', 'onFoo/dyn', 'style/dyn', 'xlink:href/dyn'].includes(ALPHA[i].id));
        for (const host of ['div', 'Comp']) for (const name of Object.keys(byName)) for (const i of byName[name]) for (const j of byName[name]) {
          if (i === j) continue;
          for (const mp of [true, false]) {
            yield { sp: 'F', host, at: [ALPHA[i].id, ALPHA[j].id], ton: false, mp };
            for (const o of others) if (ALPHA[o].name !== name) { yield { sp: 'F', host, at: [ALPHA[i].id, ALPHA[o].id, ALPHA[j].id], ton: false, mp }; yield { sp: 'F', host, at: [ALPHA[o].id, ALPHA[i].id, ALPHA[j].id], ton: false, mp }; }
          }
        }
      },
    },
    {
      name: 'S:slot-trees',
      bounds: { depth: 2, leaves: LEAVES, component_attributes: TREE_ATTRS, attribute_depth: thorough ? 2 : 1, note: 'nested component trees, with plain-element wrappers, for the `_` slot flag' },
      *gen() { for (const a of Object.keys(TREE_ATTRS)) for (const t of trees(a === 'none' || thorough ? 2 : 1)) yield { sp: 'S', t, a }; },
    },
  ];
  return sp;
}

const PRIMERS = {
  plainDiv: '__out.pre = () => <div id="p">t</div>;',
  memberDiv: '__out.pre = () => <ns.div id="p">t</ns.div>;',
  comp: '__out.pre = () => <Comp class={c1}>{x}</Comp>;',
  unboundComp: '__out.pre = () => <Comp2 style={st1} />;',
};
const byId = new Map(ALPHA.map((a) => [a.id, a]));

function requests(c) {
  if (c.sp === 'S') {
    const names = ['B', 'Comp', 'B', 'Comp', 'B', 'Comp', 'B', 'Comp'];
    return [{ src: E.PRELUDE + `__out.mk = () => (${treeSrc(c.t, names, TREE_ATTRS[c.a || 'none'])});\n`, want: ['eval'], opts: JSON.stringify({ optimize: true }) }];
  }
  const jsx = E.renderJsx(c.host, c.at.map((id) => byId.get(id).src), []);
  const mod = E.renderModule(c.host, jsx);
  return [{ src: c.pre ? mod.replace('__out.mk =', PRIMERS[c.pre] + '\n__out.mk =') : mod, ts: c.at.some((id) => byId.get(id).ts), want: ['eval'], opts: JSON.stringify({ optimize: true, transformOn: c.ton, mergeProps: c.mp }) }];
}

function judgeFlags(c, v, viol) {
  const isComponent = c.host === 'Comp' || c.host === 'memberNative';
  const flag = v.patchFlag, dp = v.dynamicProps, props = v.props || {};
  const push = (clause, diff, msg) => viol.push({ clause, diff, msg, observed: { patchFlag: flag, dynamicProps: dp, props: Object.keys(props).sort() } });
  if (flag !== undefined) {
    if (!(Number.isInteger(flag) && flag > 0 && (flag & ~ALL_BITS) === 0)) push('flag-domain', 'flag:' + (flag < 0 ? 'negative' : 'not-a-known-combination'), `patch flag ${flag} is not a positive combination of known bits`);
  }
  if (dp !== undefined) {
    if (!Array.isArray(dp)) push('dynamic-props-present', 'dynamicProps:not-array', 'dynamicProps is not an array');
    else for (const k of dp) if (!Object.prototype.hasOwnProperty.call(props, k)) push('dynamic-props-present', 'dynamicProps:names-absent-prop', `dynamicProps names "${k}" which is not among the vnode's props`);
  }
  const atoms = c.at.map((id) => byId.get(id));
  const positive = typeof flag === 'number' && flag > 0;
  const full = positive && (flag & F.FULL_PROPS) !== 0;
  const transformOnActive = c.ton && atoms.some((a) => a.special === 'on');
  // the statement does not cover a plain prop literally named `on`/`nativeOn` with transformOn off
  const needsFull = atoms.some((a) => a.special === 'fullprops') || transformOnActive;
  if (positive && needsFull && !full) push('full-props', 'flag:missing-FULL_PROPS', 'spread / merged / computed-key props without the full-props bit');
  if (positive && !full) {
    const dyn = new Set();
    const counts = {};
    for (const a of atoms) if (!a.special) counts[a.name] = (counts[a.name] || 0) + 1;
    for (const k of (c.__observedDynamic || [])) dyn.add(k);
    for (const a of atoms) {
      if (!a.special && counts[a.name] > 1 && !MERGEABLE.has(a.name)) continue; // which occurrence wins is not C13's business: judged by observation only
      if (a.special === 'prop') dyn.add(a.name);
      else if (a.special === 'model') { dyn.add('onUpdate:modelValue'); if (isComponent) dyn.add('modelValue'); }
      else if (!a.special && a.dyn) dyn.add(a.name);
    }
    for (const name of dyn) {
      if (name === 'key' || name === 'ref') continue;
      if (!Object.prototype.hasOwnProperty.call(props, name)) continue; // not present at run time: nothing to cover
      if (!isComponent && name === 'class') { if (!(flag & F.CLASS)) push('covered', 'class:uncovered', 'dynamic class without the CLASS bit'); continue; }
      if (!isComponent && name === 'style') { if (!(flag & F.STYLE)) push('covered', 'style:uncovered', 'dynamic style without the STYLE bit'); continue; }
      if (!(flag & F.PROPS) || !Array.isArray(dp) || !dp.includes(name)) push('covered', 'prop:uncovered', `dynamic prop "${name}" is not covered (needs PROPS bit and an entry in dynamicProps)`);
    }
  }
  const hasRef = atoms.some((a) => a.name === 'ref');
  const hasDir = (v.dirs && v.dirs.length > 0);
  if ((hasRef || hasDir) && flag === F.HYDRATE_EVENTS) push('need-patch', 'flag:hydrate-events-alone', 'vnode with a ref / runtime directive is left with the hydration bit alone');
}

function judgeSlots(t, v, viol, path) {
  // v: vnode of component node t
  const ch = v && v.children;
  if (!ch || typeof ch !== 'object' || Array.isArray(ch)) { viol.push({ clause: 'slot-flag', diff: 'slots:not-an-object', msg: `component at ${path} did not receive a slots object`, observed: typeof ch }); return; }
  const passthrough = typeof ch.default !== 'function' || ch.__v_isVNode;
  if ('_' in ch) {
    if (ch._ !== 1 && ch._ !== 2) viol.push({ clause: 'slot-flag', diff: '_:out-of-domain', msg: `slot flag ${ch._} at ${path}`, observed: ch._ });
    if (needsDynamic(t) && ch._ !== 2) viol.push({ clause: 'slot-flag', diff: '_:stable-but-dynamic-child', msg: `slot at ${path} has a bound-identifier child (directly or by direct JSX nesting) but _ = ${ch._}`, expected: 2, observed: ch._ });
  }
  if (typeof ch.default !== 'function') return;
  let kids;
  try { kids = ch.default(); } catch (e) { viol.push({ clause: 'slot-flag', diff: 'exception:' + e.name, msg: errStr(e) }); return; }
  // walk nested structure in parallel
  const walk = (nodes, vns, p) => {
    nodes.forEach((k, i) => {
      if (typeof k === 'string') return;
      const vn = vns && vns[i];
      if (k.e) { walk(k.e, vn && vn.children, p + '/div'); return; }
      judgeSlots(k, vn, viol, p + '/C' + i);
    });
  };
  walk(t.c, kids, path);
}

function judge(c, resps) {
  const r = resps[0];
  if (r.parse_error) return { engineError: 'generated case does not parse: ' + r.parse_error };
  // a well-formed input of this space for which the transform panics or kills its process has no output that could satisfy the property
  if (r.panic || r.died) return { viol: [{ clause: 'transform-failed', diff: r.panic ? 'panic' : 'process-died', msg: r.panic ? `panic in ${r.panic.stage}: ${r.panic.msg}` : 'the transform killed its process' }], obs: 'transform-failed' };
  if (r.hang || !r.eval_js) return { skip: true };
  const env = E.makeEnv();
  const viol = [];
  let obs;
  withModule(r.eval_js, env, (out, rec, loadError) => {
    if (loadError) { viol.push({ clause: 'load', diff: 'exception:' + loadError.name, msg: errStr(loadError) }); return; }
    let v;
    try { v = out.mk(); } catch (e) { viol.push({ clause: 'create', diff: 'exception:' + e.name, msg: errStr(e) }); return; }
    if (c.sp === 'F') {
      // which props *observably* differ between two renders (every dynamic leaf of the environment differs)
      const env2 = E.makeEnv(1);
      const observedDynamic = new Set();
      withModule(r.eval_js, env2, (out2, rec2, le2) => {
        if (le2) return;
        let v2;
        try { v2 = out2.mk(); } catch (e) { return; }
        const ctx1 = { names: env.names, flags: false }, ctx2 = { names: env2.names, flags: false };
        const p1 = v.props || {}, p2 = v2.props || {};
        for (const k of Object.keys(p1)) if (stable(canonValue(p1[k], ctx1, [])) !== stable(canonValue(p2[k], ctx2, []))) observedDynamic.add(k);
      });
      c.__observedDynamic = observedDynamic;
      judgeFlags(c, v, viol);
      obs = stable([v.patchFlag === undefined ? 'none' : v.patchFlag, v.dynamicProps || null, Object.keys(v.props || {}).sort()]);
    } else {
      judgeSlots(c.t, v, viol, 'C');
      const flags = [];
      const collect = (x) => { if (x && x.children && !Array.isArray(x.children) && typeof x.children === 'object') { flags.push(x.children._); try { (x.children.default() || []).forEach(collect); } catch (e) {} } else if (x && Array.isArray(x.children)) x.children.forEach(collect); };
      collect(v);
      obs = stable(flags);
    }
  });
  const uniq = new Map();
  for (const v of viol) if (!uniq.has(v.clause + v.diff)) uniq.set(v.clause + v.diff, v);
  return { viol: [...uniq.values()], obs, clauses: c.sp === 'F' ? ['flag-domain', 'dynamic-props-present', 'full-props', 'covered', 'need-patch'] : ['slot-flag'] };
}

function* shrinkTree(t) {
  // drop a child, or replace a nested node by its own children one level up
  for (let i = 0; i < t.c.length; i++) {
    if (t.c.length > 1) yield { c: t.c.slice(0, i).concat(t.c.slice(i + 1)) };
    const k = t.c[i];
    if (typeof k !== 'string') {
      const inner = k.e ? k.e : k.c;
      if (k.e) yield { c: t.c.slice(0, i).concat(inner, t.c.slice(i + 1)) };
      for (const sub of (k.e ? [] : shrinkTree(k))) yield { c: t.c.slice(0, i).concat([sub], t.c.slice(i + 1)) };
      if (k.e && typeof k.e[0] !== 'string') for (const sub of shrinkTree(k.e[0])) yield { c: t.c.slice(0, i).concat([{ e: [sub] }], t.c.slice(i + 1)) };
    }
  }
}

function* shrink(c) {
  if (c.sp === 'S') { if (c.a && c.a !== 'none') yield { sp: 'S', t: c.t, a: 'none' }; for (const t of shrinkTree(c.t)) yield { sp: 'S', t, a: c.a }; return; }
  if (c.pre) yield Object.assign({}, c, { pre: undefined });
  for (let i = 0; i < c.at.length; i++) yield Object.assign({}, c, { at: c.at.slice(0, i).concat(c.at.slice(i + 1)) });
  if (c.host !== 'div') yield Object.assign({}, c, { host: 'div' });
  if (c.ton) yield Object.assign({}, c, { ton: false });
  if (!c.mp) yield Object.assign({}, c, { mp: true });
}

function caseKey(c) {
  if (c.sp === 'S') return 'S:' + treeKey(c.t) + (c.a && c.a !== 'none' ? ' @' + c.a : '');
  return `F:${c.host}[${c.at.join(' ')}]{${c.ton ? 'transformOn' : ''}${c.mp ? '' : ' mergeProps=off'}}${c.pre ? ' after ' + c.pre : ''}`;
}

module.exports = {
  id: 'C13',
  level: 'model_checking',
  rule: 'exhaustive enumeration of attribute multisets (and out-of-order sequences over a core) over the abstract alphabet name × value kind ∪ specials, × element/component × transformOn × mergeProps with optimize on, plus nested component trees for slot flags; each state is transformed by the real visitor and executed, and the observed patchFlag / dynamicProps / props keys / `_` entries are checked against the patch-flag contract of the statement (an implication: conservative hints never alarm). Which attributes are dynamic is decided by the generator\'s abstract kind. Distinct = distinct (flag, dynamicProps, prop keys) triples or `_` vectors.',
  assumptions: ['mock Vue runtime records arguments 2, 4, 5 of createVNode verbatim', 'node evaluator', 'contract transcribed from the property statement'],
  spaces, requests, judge, shrink, caseKey,
  depth: (c) => (c.sp === 'S' ? treeKey(c.t).split('C(').length - 1 : c.at.length),
};
