'use strict';
// C03 — component children become the slots the source denotes.
const { product } = require('../lib/spaces');
const { withModule, errStr } = require('../lib/evalmod');
const { canonValue, diff, diffClass, stable, Names } = require('../lib/canon');

// ShadowAlias: the module imports Vue's Fragment under the alias `Sh`, but the tag refers to a function parameter of
// the same name (an ordinary component): classification must follow the binding, not the spelling
const HOSTS = { Comp: 'Comp', Unbound: 'Unbound', member: 'ns.Comp', memberNative: 'ns.div', ShadowAlias: 'Sh', ForeignFragment: 'Fg' };
// child shapes; `dyn` marks the ones whose treatment is decided at run time
const SHAPES = {
  none:    { src: '' },
  ws:      { src: '\n  ', empty: true },
  cmt:     { src: '{/* c */}', empty: true },
  emptyex: { src: '{}', empty: true },
  wscmt:   { src: '\n  {/* c */}\n', empty: true },
  ident:   { src: '{sl}', dyn: 'ident' },
  uident:  { src: '{usl}', dyn: 'uident' },
  call:    { src: '{mkSlot()}', dyn: 'call' },
  arrow:   { src: '{() => [x]}' },
  func:    { src: '{function () { return [x]; }}' },
  objlit:  { src: '{{ default: () => [x], named: namedFn }}' },
  text:    { src: 'a' },
  element: { src: '<b/>' },
  two:     { src: '{x}{y}' },
  textexpr:{ src: 'a{x}' },
  spread:  { src: '{...xs}' },
  spreadId:{ src: '{...sl}', dyn: 'spreadIdent' },
  spreadCl:{ src: '{...mkSlot()}', dyn: 'spreadCall' },
  spreadOb:{ src: '{...{ a: 1 }}' },
  spreadAr:{ src: '{...[x, y]}' },
  member:  { src: '{o.p}' },
  lit:     { src: '{"s"}' },
  // children whose evaluation is observable: nothing of a lazily evaluated default slot may run at creation
  elementTick: { src: '<b title={tick()} />', ticks: 1 },
  twoTick:     { src: '{tick()}{y}', ticks: 1 },
  textTick:    { src: 'a{tick()}', ticks: 1 },
  nestedTick:  { src: '<div><i>{tick()}</i></div>', ticks: 1 },
};
const KINDS = ['vnode', 'string', 'array', 'slotsObj', 'fn'];
const VSLOTS = {
  none: '',
  ident: ' v-slots={vs}',
  obj: ' v-slots={{ foo: vsFoo }}',
  objDefault: ' v-slots={{ default: vsDefault, foo: vsFoo }}',
};
// syntactic contexts: template with J, and how two creations are obtained
const CTX = {
  arrow:    { tpl: (J) => `__out.mk = () => ${J};`, mode: 'call2' },
  fn:       { tpl: (J) => `function mk() { return ${J}; }\n__out.mk = mk;`, mode: 'call2' },
  assign:   { tpl: (J) => `let av;\n__out.mk = () => (av = ${J});`, mode: 'call2' },
  assignFn: { tpl: (J) => `function mk(p) { let q; q = ${J}; return q; }\n__out.mk = () => mk(x);`, mode: 'call2' },
  block:    { tpl: (J) => `__out.mk = () => { if (c) { const r = ${J}; return r; } };`, mode: 'call2' },
  field:    { tpl: (J) => `class K { f = ${J}; }\n__out.mk = () => new K().f;`, mode: 'call2' },
  defparam: { tpl: (J) => `function mk(p = ${J}) { return p; }\n__out.mk = () => mk();`, mode: 'call2' },
  arrowparam:{ tpl: (J) => `const mk = (p = ${J}) => p;\n__out.mk = () => mk();`, mode: 'call2' },
  loop:     { tpl: (J) => `__out.pair = () => { const r = []; for (const i of [0, 1]) r.push(${J}); return r; };`, mode: 'pair' },
  modloop:  { tpl: (J) => `__out.vs = [];\nfor (const i of [0, 1]) __out.vs.push(${J});`, mode: 'load' },
  stmt:     { tpl: (J) => `__out.vs = [${J}, ${J}];`, mode: 'load' },
};

function answer(kind, k, names) {
  switch (kind) {
    case 'vnode': return { __v_isVNode: true, type: 'answer' + k, props: null, children: null };
    case 'string': return 'str' + k;
    case 'array': return ['arr' + k];
    case 'slotsObj': return { default: names.reg(() => 'so' + k, 'soDefault' + k), named: names.reg(() => 'n', 'soNamed' + k) };
    case 'fn': return names.reg(() => 'f' + k, 'slotFn' + k);
  }
  return undefined;
}

function makeEnv(c) {
  const names = new Names();
  const comp = (n) => names.reg({ __component: n }, n);
  const st = { createQueue: [], current: 0, slIdx: 0, mkSlotCalls: 0, ticks: 0, answers: null };
  const bound = {
    Comp: comp('Comp'), ns: { Comp: comp('ns.Comp') },
    x: 'xval', y: 'yval', xs: ['xs0', 'xs1'], c: true, o: { p: 'op' },
    namedFn: names.reg(() => 'named', 'namedFn'),
    vs: { foo: names.reg(() => 'vsfoo', 'vsIdentFoo') },
    vsFoo: names.reg(() => 'foo', 'vsFoo'), vsDefault: names.reg(() => 'vd', 'vsDefault'),
    // during a creation step the prepared answer(s); afterwards (lazy evaluation inside a thunk) the current one
    tick: () => { st.ticks++; return 'tk'; },
    mkSlot: () => { st.mkSlotCalls++; return st.createQueue.length ? st.createQueue.shift() : st.answers[st.current]; },
  };
  const answers = [answer(c.kind, 1, names), answer(c.kind, 2, names)];
  st.answers = answers;
  // stub for a configured pragma (`hh`): the same observable record as createVNode
  const hh = (type, props, children) => ({ __v_isVNode: true, type, props: props || null, children: children === undefined ? null : children, dirs: null });
  return { bound, names, st, answers, sl0: answers[0], globals: { usl: answers[0], hh }, modules: { lib: { Fragment: comp('lib.Fragment') } } };
}

const PRELUDE = 'const { Comp, ns, x, y, xs, c, o, namedFn, vs, vsFoo, vsDefault, mkSlot, tick } = __env.bound;\nlet sl = __env.sl0;\n__out.setSl = (v) => { [sl] = [v]; };\n';

// other attributes next to v-slots (props, never slots): a JSX element as attribute value re-enters the element code
const CO = { none: ['', ''], bareAfter: ['', ' icon=<i id="b">inner</i>'], bareBefore: [' icon=<i id="b">inner</i>', ''], bracedAfter: ['', ' icon={<i id="b">inner</i>}'], compAfter: ['', ' icon=<Comp id="c">{x}</Comp> id="a"'], spreadBefore: [' {...o}', ''] };
// how the children are laid out between the tags: lines that hold only indentation do not count as children
const LAYOUTS = { inline: (ch) => ch, nlSpaces: (ch) => `\n    ${ch}\n  `, nlTabs: (ch) => `\n\t\t${ch}\n\t`, crlfTabs: (ch) => `\r\n\t${ch}\r\n`, nlMixed: (ch) => `\n \t ${ch}\n\t \t` };
function render(c) {
  const tag = HOSTS[c.host];
  const ch = SHAPES[c.shape].src === '' ? '' : LAYOUTS[c.lay || 'inline'](SHAPES[c.shape].src);
  const co = CO[c.co || 'none'];
  const attrs = `${co[0]}${VSLOTS[c.vslots]}${co[1]}`;
  let J = ch === '' ? `<${tag}${attrs} />` : `<${tag}${attrs}>${ch}</${tag}>`;
  if (c.host === 'ShadowAlias') J = `((Sh) => ${J})(Comp)`;
  return (c.host === 'ShadowAlias' ? "import { Fragment as Sh } from 'vue';\n" : c.host === 'ForeignFragment' ? "import { Fragment as Fg } from 'lib';\n" : '') + PRELUDE + CTX[c.ctx].tpl(J) + '\n';
}

function optsJson(c) { return JSON.stringify(Object.assign({ enableObjectSlots: c.eos, optimize: c.opt }, c.pg ? { pragma: 'hh' } : {})); }

function requests(c) { return [{ src: render(c), want: ['eval'], opts: optsJson(c) }]; }

// reference model: the children *value* a component host must receive (thunks are invoked by the canonicaliser)
function vslotEntries(c, env) {
  if (c.vslots === 'ident') return Object.assign({}, env.bound.vs);
  if (c.vslots === 'obj') return { foo: env.bound.vsFoo };
  if (c.vslots === 'objDefault') return { default: env.bound.vsDefault, foo: env.bound.vsFoo };
  return {};
}
// created = the child's value when the vnode was created; lazy = the value a thunk reads when invoked now
function expectedChildren(c, env, created, lazy) {
  const b = env.bound;
  const vse = vslotEntries(c, env);
  const wrap = (list) => Object.assign({ default: () => list }, vse);
  const s = SHAPES[c.shape];
  if (c.shape === 'none' || s.empty) return c.vslots === 'none' ? null : vse;
  // a spread child is always part of the lazily evaluated default slot, whatever is being spread
  if (s.dyn === 'spreadIdent') return Object.assign({ default: () => [...lazy] }, vse);
  if (s.dyn === 'spreadCall') return Object.assign({ default: () => [...env.bound.mkSlot()] }, vse);
  if (c.shape === 'spreadOb') return Object.assign({ default: () => [...{ a: 1 }] }, vse);
  if (c.shape === 'spreadAr') return wrap([b.x, b.y]);
  if (s.dyn) {
    const isSlot = typeof created === 'function' || (Object.prototype.toString.call(created) === '[object Object]' && !(created && created.__v_isVNode));
    if (c.eos && isSlot) return created;
    // identifiers are read when the slot runs; a call child is evaluated once at creation iff the runtime decision needs its value
    return wrap([s.dyn === 'call' && c.eos ? created : lazy]);
  }
  switch (c.shape) {
    case 'arrow': case 'func': return Object.assign({ default: () => [b.x] }, vse); // the function itself is `default`; canonical form = its result
    case 'objlit': return { default: () => [b.x], named: b.namedFn };
    case 'text': return wrap([{ __expectVNode: { text: 'a' } }]);
    case 'element': return wrap([{ __expectVNode: { type: 'tag:b', props: null, children: null } }]);
    case 'two': return wrap([b.x, b.y]);
    case 'textexpr': return wrap([{ __expectVNode: { text: 'a' } }, b.x]);
    case 'spread': return wrap(b.xs.slice());
    case 'member': return wrap([b.o.p]);
    case 'lit': return wrap(['s']);
    case 'elementTick': return wrap([{ __expectVNode: { type: 'tag:b', props: { title: 'tk' }, children: null } }]);
    case 'twoTick': return wrap(['tk', b.y]);
    case 'textTick': return wrap([{ __expectVNode: { text: 'a' } }, 'tk']);
    case 'nestedTick': return wrap([{ __expectVNode: { type: 'tag:div', props: null, children: [{ type: 'tag:i', props: null, children: ['tk'] }] } }]);
  }
  throw new Error('shape ' + c.shape);
}

function abstain(c) {
  const s = SHAPES[c.shape];
  // v-slots next to an object-literal child / next to a passed-through runtime slots value: "beside default" – there may be none
  if (c.vslots !== 'none' && c.shape === 'objlit') return true;
  if (c.vslots !== 'none' && ['ident', 'uident', 'call'].includes(s.dyn) && c.eos && (c.kind === 'slotsObj' || c.kind === 'fn')) return true;
  // v-slots that itself defines `default` next to written children: precedence is not specified
  if (c.vslots === 'objDefault' && c.shape !== 'none' && !s.empty) return true;
  return false;
}

// invocation orders explored, as sequences over {c1,c2,i1,i2}
const ORDERS_CALL2 = [['c1', 'i1', 'c2', 'i2'], ['c1', 'c2', 'i1', 'i2'], ['c1', 'c2', 'i2', 'i1'], ['c1', 'c2', 'i1', 'i2', 'i1']];
// thorough tier: repeated invocations and the remaining linearisations
const ORDERS_CALL2_DEEP = [['c1', 'i1', 'i1', 'c2', 'i2', 'i2'], ['c1', 'c2', 'i2', 'i1', 'i2'], ['c1', 'i1', 'c2', 'i1', 'i2'], ['c1', 'i1', 'c2', 'i2', 'i1']];
const ORDERS_PAIR_DEEP = [['c', 'i1', 'i1', 'i2'], ['c', 'i2', 'i1', 'i2', 'i1']];
const ORDERS_PAIR = [['c', 'i1', 'i2'], ['c', 'i2', 'i1']];

// Where the statement leaves the *merge* of two sources of slots open (abstain), what each source contributes is
// still fixed: the entries of an object-literal child, of a passed-through runtime slots object and of `v-slots`
// must all reach the component (whichever wins for a key both define).
function weakJudge(c, r) {
  const viol = [];
  const env = makeEnv(c);
  const ctx = { names: env.names, flags: false };
  let obs = 'weak';
  withModule(r.eval_js, env, (out, rec, loadError) => {
    if (loadError) { viol.push({ clause: 'load', diff: 'exception:' + loadError.name, msg: errStr(loadError) }); return; }
    const mode = CTX[c.ctx].mode;
    env.st.createQueue = [env.answers[0], env.answers[1]];
    let vn;
    try {
      if (mode === 'call2') { out.setSl(env.answers[0]); globalThis.usl = env.answers[0]; env.st.createQueue = [env.answers[0]]; vn = out.mk(); }
      else vn = (mode === 'pair' ? out.pair() : out.vs)[0];
    } catch (e) { viol.push({ clause: 'run', diff: 'exception:' + (e && e.name), msg: errStr(e) }); return; }
    let o;
    try { o = canonValue(vn, ctx, []); } catch (e) { viol.push({ clause: 'run', diff: 'exception:' + (e && e.name), msg: errStr(e) }); return; }
    const slots = o && o.children && o.children.slots;
    const need = new Set();
    if (c.vslots === 'ident' || c.vslots === 'obj' || c.vslots === 'objDefault') need.add('foo');
    if (c.shape === 'objlit') { need.add('default'); need.add('named'); }
    const runtimeDecided = ['ident', 'uident', 'call'].includes(SHAPES[c.shape].dyn);
    if (runtimeDecided && c.kind === 'slotsObj' && c.eos) { need.add('default'); need.add('named'); }
    const passedFn = runtimeDecided && c.kind === 'fn' && c.eos; // a slot function passed through as the children: nothing to look into
    if (c.shape !== 'none' && !SHAPES[c.shape].empty && !passedFn) need.add('default');
    if (!passedFn) {
      const have = slots ? Object.keys(slots) : [];
      const missing = [...need].filter((k) => !have.includes(k));
      if (missing.length) viol.push({ clause: 'slots-weak', diff: 'slots:entry-missing', msg: `slot entries [${missing}] do not reach the component`, expected: [...need], observed: have });
    }
    obs = 'weak:' + stable(slots ? Object.keys(slots).sort() : null);
  });
  return { viol, obs, clauses: ['slots-weak'] };
}

function judge(c, resps) {
  const r = resps[0];
  if (r.parse_error) return { engineError: 'generated case does not parse: ' + r.parse_error };
  // a well-formed input of this space for which the transform panics or kills its process has no output that could satisfy the property
  if (r.panic || r.died) return { viol: [{ clause: 'transform-failed', diff: r.panic ? 'panic' : 'process-died', msg: r.panic ? `panic in ${r.panic.stage}: ${r.panic.msg}` : 'the transform killed its process' }], obs: 'transform-failed' };
  if (r.hang || !r.eval_js) return { skip: true };
  if (abstain(c)) return weakJudge(c, r);
  const viol = [];
  const obsAll = [];
  const mode = CTX[c.ctx].mode;
  const orders = (mode === 'call2' ? ORDERS_CALL2 : ORDERS_PAIR).concat(process.env.VERIF_TIER_EFFECTIVE === 'thorough' ? (mode === 'call2' ? ORDERS_CALL2_DEEP : ORDERS_PAIR_DEEP) : []);
  let extra = 0;
  for (const order of orders) {
    extra++;
    const env = makeEnv(c);
    const ctx = { names: env.names, flags: false };
    const dynKind = SHAPES[c.shape].dyn;
    const tag = order.join('');
    const st = env.st;
    if (mode !== 'call2') st.createQueue = [env.answers[0], env.answers[1]];
    const eagerCall = dynKind === 'call' && c.eos;
    withModule(r.eval_js, env, (out, rec, loadError) => {
      if (loadError) { viol.push({ clause: 'load', diff: 'exception:' + loadError.name, msg: errStr(loadError) }); return; }
      const vn = [null, null];
      const seen = [null, null];
      const createdVal = [null, null];
      try {
        for (const step of order) {
          if (step === 'c') {
            const before = mode === 'pair' ? st.mkSlotCalls : 0;
            const pair = mode === 'pair' ? out.pair() : out.vs;
            vn[0] = pair[0]; vn[1] = pair[1];
            const made = st.mkSlotCalls - before;
            if (SHAPES[c.shape].ticks && st.ticks !== 0) viol.push({ clause: 'lazy', diff: 'evaluated-at-creation', msg: `content of the default slot was evaluated ${st.ticks} time(s) when the vnodes were created` });
            st.createQueue = []; st.current = 1; st.slIdx = 0;
            createdVal[0] = dynKind === 'call' ? env.answers[0] : env.answers[0];
            createdVal[1] = dynKind === 'call' ? env.answers[1] : env.answers[0];
            if (dynKind === 'call' && made !== (eagerCall ? 2 : 0)) viol.push({ clause: 'call-once', diff: 'calls-at-create:' + made, msg: `call child evaluated ${made} times for two creations` });
          } else if (step[0] === 'c') {
            const k = +step[1] - 1;
            out.setSl(env.answers[k]);
            globalThis.usl = env.answers[k];
            st.slIdx = k; st.current = k; st.createQueue = [env.answers[k]];
            const before = st.mkSlotCalls;
            const ticks0 = st.ticks;
            vn[k] = out.mk();
            const made = st.mkSlotCalls - before;
            if (SHAPES[c.shape].ticks && st.ticks !== ticks0) viol.push({ clause: 'lazy', diff: 'evaluated-at-creation', msg: `content of the default slot was evaluated ${st.ticks - ticks0} time(s) when the vnode was created` });
            st.createQueue = [];
            createdVal[k] = env.answers[k];
            if (dynKind === 'call' && made !== (eagerCall ? 1 : 0)) viol.push({ clause: 'call-once', diff: 'calls-at-create:' + made, msg: `call child evaluated ${made} times at creation` });
          } else {
            const k = +step[1] - 1;
            const before = st.mkSlotCalls;
            const ticks0 = st.ticks;
            const o = canonValue(vn[k], ctx, []);
            const made = st.mkSlotCalls - before;
            if (SHAPES[c.shape].ticks && st.ticks - ticks0 !== SHAPES[c.shape].ticks) viol.push({ clause: 'lazy', diff: 'evaluations-per-invocation:' + (st.ticks - ticks0), msg: `content of the default slot was evaluated ${st.ticks - ticks0} time(s) by one invocation of the slot` });
            if (dynKind === 'call' && made !== (eagerCall ? 0 : 1)) viol.push({ clause: 'call-once', diff: 'calls-at-invoke:' + made, msg: `call child evaluated ${made} times when the slot is invoked` });
            const lazy = dynKind === 'call' ? env.answers[st.current] : env.answers[st.slIdx];
            const e = canonValue({ __v_isVNode: true, type: 'x', props: null, children: expectedChildren(c, env, createdVal[k], lazy) }, ctx, []).children;
            const d = diff(e, o && o.children);
            // diff class: path cut below the slot's returned list so that the runtime kind of the answer does not split classes
            if (d) viol.push({ clause: 'slots', diff: ('children' + diffClass(d)).replace(/(\.ret)[^:]+:/, '$1…:'), msg: `evaluation ${k + 1}: slots differ at ${d.path} (order ${order.join(',')})`, expected: e, observed: o && o.children });
            seen[k] = o && o.children;
          }
        }
      } catch (e) {
        viol.push({ clause: 'run', diff: 'exception:' + (e && e.name), msg: errStr(e) + ' (order ' + order.join(',') + ')' });
      }
      obsAll.push(seen);
    });
  }
  // dedupe identical (clause,diff)
  const uniq = new Map();
  for (const v of viol) if (!uniq.has(v.clause + v.diff)) uniq.set(v.clause + v.diff, v);
  return { viol: [...uniq.values()], obs: stable(obsAll), extraEvals: extra - 1, clauses: ['slots', 'call-once', 'lazy'] };
}

const DIMS = {
  host: Object.keys(HOSTS), shape: Object.keys(SHAPES), vslots: Object.keys(VSLOTS), ctx: Object.keys(CTX),
};

function* allCases() {
  for (const ctx of DIMS.ctx) for (const host of DIMS.host) for (const shape of DIMS.shape) {
    const kinds = SHAPES[shape].dyn ? KINDS : ['vnode'];
    for (const kind of kinds) for (const vslots of DIMS.vslots) for (const [eos, opt] of product([[true, false], [false, true]])) {
      yield { host, shape, kind, vslots, eos, opt, ctx };
    }
  }
}

function spaces(tier) {
  const thorough = true; // cheap: the quick tier explores the whole product too
  return [{
    name: 'slots',
    bounds: { hosts: DIMS.host, shapes: DIMS.shape, runtime_kinds: KINDS, vslots: DIMS.vslots, contexts: DIMS.ctx, options: 'enableObjectSlots × optimize', interleavings: { call2: ORDERS_CALL2.concat(tier === 'thorough' ? ORDERS_CALL2_DEEP : []).map((o) => o.join(',')), pair: ORDERS_PAIR.concat(tier === 'thorough' ? ORDERS_PAIR_DEEP : []).map((o) => o.join(',')) } },
    *gen() { yield* allCases(); },
  }, {
    name: 'A:attributes-next-to-v-slots',
    bounds: { co_attributes: Object.keys(CO).filter((k) => k !== 'none'), hosts: ['Comp', 'member'], contexts: ['arrow', 'stmt'], note: 'the same product with another attribute before / after v-slots (incl. JSX elements as attribute values, bare and braced): the slots are what they are without it' },
    *gen() { for (const c of allCases()) if (['Comp', 'member'].includes(c.host) && ['arrow', 'stmt'].includes(c.ctx) && !c.opt) for (const co of Object.keys(CO)) if (co !== 'none') yield Object.assign({}, c, { co }); },
  }, {
    name: 'L:child-layouts',
    bounds: { layouts: Object.keys(LAYOUTS).filter((k) => k !== 'inline'), hosts: ['Comp', 'member'], contexts: ['arrow', 'stmt'], note: 'the same product with the children on a line of their own, indented with spaces, tabs or both, LF or CRLF: the slots are what they are when written inline' },
    *gen() { for (const c of allCases()) if (['Comp', 'member'].includes(c.host) && ['arrow', 'stmt'].includes(c.ctx) && !c.opt) for (const lay of Object.keys(LAYOUTS)) if (lay !== 'inline') yield Object.assign({}, c, { lay }); },
  }, {
    name: 'P:configured-pragma',
    bounds: { pragma: 'hh (a createVNode-compatible factory)', contexts: thorough ? 'all' : ['arrow', 'fn', 'stmt', 'loop'], vslots: thorough ? 'all' : ['none', 'obj'], note: 'the same product under a configured vnode factory: what the children become must not depend on who creates the vnodes' },
    *gen() { for (const c of allCases()) if (thorough || (['arrow', 'fn', 'stmt', 'loop'].includes(c.ctx) && ['none', 'obj'].includes(c.vslots))) yield Object.assign({}, c, { pg: true }); },
  }];
}

function* shrink(c) {
  // each dimension towards its simplest value (first entry), one at a time
  if (c.pg) yield Object.assign({}, c, { pg: false });
  if (c.co && c.co !== 'none') yield Object.assign({}, c, { co: 'none' });
  if (c.lay && c.lay !== 'inline') yield Object.assign({}, c, { lay: 'inline' });
  if (c.ctx !== 'arrow') yield Object.assign({}, c, { ctx: 'arrow' });
  if (c.ctx !== 'arrow' && c.ctx !== 'stmt') yield Object.assign({}, c, { ctx: 'stmt' });
  if (c.host !== 'Comp') yield Object.assign({}, c, { host: 'Comp' });
  if (c.vslots !== 'none') yield Object.assign({}, c, { vslots: 'none' });
  if (c.vslots === 'objDefault' || c.vslots === 'ident') yield Object.assign({}, c, { vslots: 'obj' });
  if (!c.eos) yield Object.assign({}, c, { eos: true });
  if (c.opt) yield Object.assign({}, c, { opt: false });
  if (c.kind !== 'vnode') yield Object.assign({}, c, { kind: 'vnode' });
  if (c.shape === 'uident') yield Object.assign({}, c, { shape: 'ident' });
  for (const simple of ['lit', 'text']) if (!SHAPES[c.shape].dyn && !['lit', 'text', 'none', 'arrow', 'func', 'objlit'].includes(c.shape)) yield Object.assign({}, c, { shape: simple, kind: 'vnode' });
}

function caseKey(c) {
  return `${c.ctx}:<${HOSTS[c.host]}${c.vslots === 'none' ? '' : ' v-slots:' + c.vslots}>${c.shape}${SHAPES[c.shape].dyn ? '=' + c.kind : ''}{${c.eos ? 'eos' : '-'}${c.opt ? '+optimize' : ''}${c.pg ? '+pragma' : ''}}${c.co && c.co !== 'none' ? ' +' + c.co : ''}${c.lay && c.lay !== 'inline' ? ' @' + c.lay : ''}`;
}

module.exports = {
  id: 'C03',
  level: 'model_checking',
  rule: 'complete product of component host × child shape × runtime value kind of the child (environment answer) × v-slots form × enableObjectSlots × optimize × enclosing syntactic context; each state is transformed by the real visitor and its output executed; the JSX expression is created twice with different environment answers and the slots of both vnodes are invoked in every explored order of (create1, create2, invoke1, invoke2), each result compared with the reference slots model; call children are counted. Distinct = distinct canonical slot observations.',
  assumptions: ['mock Vue runtime (createVNode, isVNode, resolveComponent)', 'node evaluator', 'reference slots model written from the property statement'],
  spaces, requests, judge, shrink, caseKey,
  depth: (c) => (c.host !== 'Comp') + (c.shape !== 'none') + (c.kind !== 'vnode') + (c.vslots !== 'none') + (!c.eos) + (c.opt ? 1 : 0) + (c.ctx !== 'arrow') + (c.pg ? 1 : 0),
};
