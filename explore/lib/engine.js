'use strict';
// Bounded exhaustive exploration engine shared by all checks.
//   parent: forks N shard workers, merges counts, matches reduced violations against
//           known_findings.json, writes replay artefacts and evidence, sets the exit code.
//   worker: enumerates the check's spaces deterministically (breadth-first by construction of the
//           generators: shorter histories first), runs every case of its shard through the real
//           pipeline (vjdriver) and the check's judge, then reduces every failing case to a
//           1-minimal failing case for the same (clause, diff class).
const { fork } = require('child_process');
const fs = require('fs');
const path = require('path');
const os = require('os');
const { Driver } = require('./driver');
const { hash } = require('./canon');

const ROOT = path.join(__dirname, '..', '..');
const NSHARDS = +(process.env.VERIF_SHARDS || Math.min(16, os.cpus().length));
const BATCH = 48;

function loadCheck(id) {
  return require(path.join(__dirname, '..', 'checks', id + '.js'));
}

// ---------------------------------------------------------------- worker
async function evalCase(check, driver, c) {
  const reqs = check.requests(c);
  const resps = await driver.requestAll(reqs);
  return { reqs, resps, j: check.judge(c, resps, reqs) };
}

function sigOf(v) { return v.clause + ' | ' + v.diff; }

async function workerMain(id, tier, shard, nshards, seed) {
  process.env.VERIF_TIER_EFFECTIVE = tier; // judges that explore extra environment answers in the thorough tier read this
  const check = loadCheck(id);
  const driver = new Driver();
  // evaluated code must not be able to end the worker asynchronously: a rejection nobody observed is reported as an
  // engine error (the harness failed to own that outcome), the exploration goes on
  process.on('unhandledRejection', (e) => { if (typeof st !== 'undefined' && st.engineErrors.length < 50) st.engineErrors.push({ error: 'unhandled rejection in evaluated code: ' + (e && e.stack || e).toString().slice(0, 300) }); });
  const st = {
    evaluations: 0, states: 0, transitions: 0, roots: 0, judged: 0, skipped: 0,
    nontrivial: 0, engineErrors: [], spaces: {}, hashes: new Set(), ntHashes: new Set(),
    samples: [], failing: [], maxDepth: 0, clauses: {}, detLog: [],
  };
  const prepared = process.env.VERIF_PREPARED ? JSON.parse(fs.readFileSync(process.env.VERIF_PREPARED, 'utf8')) : undefined;
  const spaces = check.spaces(tier, prepared);
  let pending = null;
  const judgeBatch = async (b) => {
    const resps = await b.p;
    let k = 0;
    for (const item of b.items) {
      const rs = resps.slice(k, k + item.reqs.length);
      k += item.reqs.length;
      let j;
      try {
        j = check.judge(item.c, rs, item.reqs);
      } catch (e) {
        st.engineErrors.push({ case: check.caseKey(item.c), error: 'judge threw: ' + (e && e.stack || e) });
        continue;
      }
      st.evaluations += item.reqs.length + (j.extraEvals || 0);
      if (j.engineError) { st.engineErrors.push({ case: check.caseKey(item.c), error: j.engineError, src: item.reqs[0] && item.reqs[0].src }); continue; }
      if (j.skip) { st.skipped++; continue; }
      st.judged++;
      const sp = st.spaces[item.space];
      sp.judged++;
      const h = hash(j.obs === undefined ? '' : String(j.obs));
      st.hashes.add(h);
      if (j.nontrivial !== false) { st.nontrivial++; st.ntHashes.add(h); }
      for (const cl of j.clauses || []) st.clauses[cl] = (st.clauses[cl] || 0) + 1;
      if (st.samples.length < 3 && shard === 0) st.samples.push({ space: item.space, case: check.caseKey(item.c), src: item.reqs[0] && item.reqs[0].src, opts: item.reqs[0] && item.reqs[0].opts });
      if (j.viol && j.viol.length) st.failing.push({ c: item.c, viol: j.viol, space: item.space });
      if (check.secondPass && j.det !== undefined) st.detLog.push({ c: item.c, det: j.det, space: item.space });
    }
  };
  let index = 0;
  for (const space of spaces) {
    st.spaces[space.name] = { cases: 0, judged: 0, bounds: space.bounds || {} };
    let batch = { items: [], reqs: [] };
    const flush = async () => {
      if (!batch.items.length) return;
      const b = batch;
      batch = { items: [], reqs: [] };
      b.p = driver.requestAll(b.reqs);
      if (pending) await judgeBatch(pending);
      pending = b;
    };
    for (const c of space.gen()) {
      const i = index++;
      st.spaces[space.name].cases++;
      if ((i + seed) % nshards !== shard) continue;
      const depth = check.depth ? check.depth(c) : 0;
      st.states++;
      if (depth > 0) st.transitions++; else st.roots++;
      if (depth > st.maxDepth) st.maxDepth = depth;
      const reqs = check.requests(c);
      batch.items.push({ c, reqs, space: space.name });
      for (const r of reqs) batch.reqs.push(r);
      if (batch.items.length >= BATCH) await flush();
    }
    await flush();
  }
  if (pending) await judgeBatch(pending);

  // ---- optional second pass: every case again in a brand-new driver process, in reversed order
  if (check.secondPass && st.detLog.length) {
    const d2 = new Driver();
    const log = st.detLog.slice().reverse();
    for (let k = 0; k < log.length; k += BATCH) {
      const part = log.slice(k, k + BATCH);
      const resps = await d2.requestAll(part.map((e) => (check.secondPassRequest ? check.secondPassRequest(e.c) : check.requests(e.c)[0])));
      st.evaluations += part.length;
      part.forEach((e, i) => {
        const det = check.detOf(resps[i]);
        if (det !== e.det) st.failing.push({ c: e.c, space: e.space, viol: [{ clause: 'deterministic-across-processes', diff: 'output:different', msg: 'a fresh process (cases in reversed order) produced a different result for the same (source, options)', expected: e.det, observed: det }] });
      });
    }
    st.secondPass = log.length;
    d2.close();
  }

  // ---- reduction of every failing case to a 1-minimal failing case
  const memo = new Map();
  const sigsOf = async (c) => {
    const key = check.caseKey(c);
    if (memo.has(key)) return memo.get(key);
    let r;
    try {
      const { j } = await evalCase(check, driver, c);
      st.reductionEvals = (st.reductionEvals || 0) + 1;
      r = (j.skip || j.engineError) ? { sigs: new Set(), viol: [] } : { sigs: new Set((j.viol || []).map(sigOf)), viol: j.viol || [] };
    } catch (e) {
      r = { sigs: new Set(), viol: [] };
    }
    memo.set(key, r);
    return r;
  };
  const reduced = new Map(); // sig + minimal key → record
  const t0 = Date.now();
  const budgetMs = +(process.env.VERIF_REDUCE_BUDGET_MS || 600000);
  for (const f of st.failing) {
    for (const v of f.viol) {
      const sig = sigOf(v);
      let cur = f.c;
      let curViol = v;
      if (check.shrink) {
        let changed = true;
        while (changed) {
          changed = false;
          if (Date.now() - t0 > budgetMs) { st.engineErrors.push({ error: 'reduction budget exceeded' }); break; }
          for (const cand of check.shrink(cur)) {
            const r = await sigsOf(cand);
            if (r.sigs.has(sig)) {
              cur = cand;
              curViol = r.viol.find((x) => sigOf(x) === sig) || curViol;
              changed = true;
              break;
            }
          }
        }
      }
      const mkey = check.caseKey(cur);
      const rk = sig + ' @ ' + mkey;
      let rec = reduced.get(rk);
      if (!rec) {
        rec = { clause: v.clause, diff: v.diff, minimal: cur, minimal_key: mkey, count: 0, example: f.c, example_key: check.caseKey(f.c), viol: curViol, space: f.space };
        reduced.set(rk, rec);
      }
      rec.count++;
    }
  }
  driver.close();
  const out = {
    evaluations: st.evaluations, states: st.states, transitions: st.transitions, roots: st.roots,
    judged: st.judged, skipped: st.skipped, nontrivial: st.nontrivial, engineErrors: st.engineErrors.slice(0, 20),
    engineErrorCount: st.engineErrors.length, spaces: st.spaces, hashes: [...st.hashes], ntHashes: [...st.ntHashes],
    samples: st.samples, maxDepth: st.maxDepth, clauses: st.clauses, failingCases: st.failing.length,
    reductionEvals: st.reductionEvals || 0, driverSpawns: driver.spawns, secondPass: st.secondPass || 0,
    reduced: [...reduced.values()].map((r) => ({
      clause: r.clause, diff: r.diff, minimal: r.minimal, minimal_key: r.minimal_key, count: r.count,
      example: r.example, example_key: r.example_key, space: r.space,
      msg: r.viol.msg, expected: r.viol.expected, observed: r.viol.observed,
      src: check.requests(r.minimal).map((q) => ({ src: q.src, opts: q.opts, ts: q.ts, entry: q.entry })),
    })),
  };
  // the worker leaves only after the parent has acknowledged the result (an exit racing the IPC read would lose it)
  process.on('message', (m) => { if (m && m.type === 'ack') process.exit(0); });
  process.send({ type: 'done', shard, out });
  setTimeout(() => process.exit(0), 60000).unref();
}

// ---------------------------------------------------------------- parent
function loadKnown() {
  const p = path.join(ROOT, 'known_findings.json');
  if (!fs.existsSync(p)) return [];
  return JSON.parse(fs.readFileSync(p, 'utf8')).findings || [];
}

function writeEvidence(id, ev) {
  const dir = process.env.VERIF_EVIDENCE_DIR || path.join(ROOT, 'evidence');
  fs.mkdirSync(dir, { recursive: true });
  fs.writeFileSync(path.join(dir, id + '.json'), JSON.stringify(ev, null, 1) + '\n');
}

async function parentMain(id, tier, opts) {
  const t0 = Date.now();
  const check = loadCheck(id);
  const seed = Number.isInteger(+process.env.VERIF_SEED) ? Math.abs(+process.env.VERIF_SEED | 0) : 0;
  const nshards = opts.shards || NSHARDS;
  const runPath = path.join(__dirname, '..', 'run.js');
  let prepInfo = null, prepFile = null;
  if (check.prepare) {
    // sequential phase before the sharded exploration (e.g. the canonical-state skeleton of explorer H)
    const prepared = await check.prepare(tier);
    if (prepared) {
      prepFile = path.join(os.tmpdir(), `verif_prep_${process.pid}.json`);
      fs.writeFileSync(prepFile, JSON.stringify(prepared));
      prepInfo = prepared.info || null;
    }
  }
  const results = await Promise.all(
    Array.from({ length: nshards }, (_, shard) => {
      const runShard = (attempt) => new Promise((resolve) => {
        const child = fork(runPath, ['--worker', id, tier, String(shard), String(nshards), String(seed)], { stdio: ['ignore', 'inherit', 'inherit', 'ipc'], env: Object.assign({}, process.env, prepFile ? { VERIF_PREPARED: prepFile } : {}) });
        let got = null;
        child.on('message', (m) => { if (m && m.type === 'done') { got = m.out; try { child.send({ type: 'ack' }); } catch (e) {} } });
        child.on('exit', (code, signal) => resolve(got || { crashed: true, code, signal, shard, attempt }));
      });
      // a shard is a deterministic function of (check, tier, shard, seed): a worker that vanished is re-run once before it counts
      return runShard(1).then((r) => (r.crashed ? runShard(2).then((r2) => (r2.crashed ? r2 : Object.assign(r2, { shardRetried: r }))) : r));
    }),
  );
  if (prepFile) try { fs.unlinkSync(prepFile); } catch (e) {}
  const crashed = results.filter((r) => r.crashed);
  const ok = results.filter((r) => !r.crashed);
  const sum = (k) => ok.reduce((a, r) => a + (r[k] || 0), 0);
  const hashes = new Set(), ntHashes = new Set();
  for (const r of ok) { for (const h of r.hashes) hashes.add(h); for (const h of r.ntHashes) ntHashes.add(h); }
  const spaces = {};
  for (const r of ok) for (const [k, v] of Object.entries(r.spaces)) {
    spaces[k] = spaces[k] || { cases: v.cases, judged: 0, bounds: v.bounds };
    spaces[k].judged += v.judged;
  }
  const clauses = {};
  for (const r of ok) for (const [k, v] of Object.entries(r.clauses)) clauses[k] = (clauses[k] || 0) + v;
  // merge reduced violations
  const merged = new Map();
  for (const r of ok) for (const v of r.reduced) {
    const k = v.clause + ' | ' + v.diff + ' @ ' + v.minimal_key;
    const m = merged.get(k);
    if (m) m.count += v.count; else merged.set(k, Object.assign({}, v));
  }
  const known = loadKnown().filter((f) => f.property === id);
  const open = known.filter((f) => (f.status || 'open') === 'open');
  const knownHits = [], unknown = [];
  for (const v of [...merged.values()].sort((a, b) => (a.minimal_key < b.minimal_key ? -1 : 1))) {
    const kf = open.find((f) => f.clause === v.clause && f.diff === v.diff && f.minimal === v.minimal_key);
    if (kf) knownHits.push({ finding: kf, v }); else unknown.push(v);
  }
  const engineErrorCount = sum('engineErrorCount') + crashed.length;
  const engineErrors = [].concat(...ok.map((r) => r.engineErrors), crashed.map((c) => ({ error: 'worker crashed', detail: c })));
  const lines = [];
  const seenKf = new Set();
  for (const h of knownHits) {
    if (seenKf.has(h.finding)) continue;
    seenKf.add(h.finding);
    const n = knownHits.filter((x) => x.finding === h.finding).reduce((a, x) => a + x.v.count, 0);
    lines.push(`KNOWN-FINDING: property=${id} ${h.finding.what} [clause=${h.finding.clause}; minimal=${h.finding.minimal}; failing cases this run=${n}]`);
  }
  const replayDir = path.join(process.env.VERIF_REPLAY_DIR || path.join(ROOT, 'replay'), id);
  const violLines = [];
  if (unknown.length) fs.mkdirSync(replayDir, { recursive: true });
  for (const v of unknown) {
    const file = path.join(replayDir, hash(v.clause + v.diff + v.minimal_key) + '.json');
    fs.writeFileSync(file, JSON.stringify({
      property: id, tier, clause: v.clause, diff: v.diff, minimal: v.minimal, minimal_key: v.minimal_key,
      example: v.example, example_key: v.example_key, failing_cases: v.count, msg: v.msg,
      expected: v.expected, observed: v.observed, requests: v.src,
    }, null, 1) + '\n');
    violLines.push(`VIOLATION property=${id} replay=${file}`);
  }
  const wall = (Date.now() - t0) / 1000;
  const distinct = ntHashes.size;
  const capped = !!(check.capped && check.capped(tier));
  const ev = {
    property_id: id,
    tier,
    seed,
    level: check.level || 'model_checking',
    coverage: {
      states: sum('states'),
      transitions: Math.max(sum('transitions'), 1),
      traces_validated_against_impl: sum('judged'),
      evaluations: sum('evaluations'),
      distinct_nontrivial: distinct,
      distinct_outcomes: hashes.size,
      rule: check.rule + ' Spaces enumerated in this run: ' + Object.keys(spaces).join('; ') + '.',
      samples: ok.length ? ok.find((r) => r.samples.length) ? ok.find((r) => r.samples.length).samples : [] : [],
      exhaustive: !capped && engineErrorCount === 0,
      bounds: spaces,
      max_depth: Math.max(0, ...ok.map((r) => r.maxDepth)),
      clauses_judged: clauses,
      skipped_abstentions: sum('skipped'),
      failing_cases: sum('failingCases'),
      reduction_evaluations: sum('reductionEvals'),
      distinct_minimal_violations: merged.size,
      known_findings_hit: [...seenKf].map((f) => f.minimal),
      shards: nshards,
      driver_respawns: sum('driverSpawns') - ok.length,
      second_pass_fresh_process_reversed: sum('secondPass'),
      engine_errors: engineErrorCount,
      prepare_phase: prepInfo,
    },
    assumptions: check.assumptions || [],
    wall_s: wall,
    violations: unknown.length,
  };
  if (ev.coverage.samples.length === 0) ev.coverage.samples = [{ note: 'no sample recorded' }];
  writeEvidence(id, ev);
  for (const l of lines) console.log(l);
  console.log(`[${id}/${tier}] states=${ev.coverage.states} transitions=${ev.coverage.transitions} executions=${ev.coverage.evaluations} validated=${ev.coverage.traces_validated_against_impl} distinct_observations=${hashes.size} (nontrivial ${distinct}) failing_cases=${ev.coverage.failing_cases} minimal=${merged.size} known=${seenKf.size} unknown=${unknown.length} engine_errors=${engineErrorCount} wall=${wall.toFixed(1)}s`);
  if (engineErrorCount) {
    console.log(`ENGINE-ERROR property=${id} ${JSON.stringify(engineErrors.slice(0, 3)).slice(0, 1500)}`);
    for (const l of violLines) console.log(l);
    return unknown.length ? 1 : 2;
  }
  if (hashes.size < 2) {
    console.log(`ENGINE-ERROR property=${id} vacuity guard: ${hashes.size} distinct observation(s) from ${ev.coverage.traces_validated_against_impl} executions`);
    return 2;
  }
  for (const l of violLines) console.log(l);
  return unknown.length ? 1 : 0;
}

async function replayMain(id, file) {
  const check = loadCheck(id);
  const rec = JSON.parse(fs.readFileSync(file, 'utf8'));
  process.env.VERIF_TIER_EFFECTIVE = rec.tier || 'quick';
  const driver = new Driver();
  let bad = false;
  for (const [label, c] of [['minimal', rec.minimal], ['example', rec.example]]) {
    if (!c) continue;
    // replayed twice: same process, then a fresh driver process
    const a = await evalCase(check, driver, c);
    const d2 = new Driver();
    const b = await evalCase(check, d2, c);
    d2.close();
    const sa = JSON.stringify((a.j.viol || []).map(sigOf)), sb = JSON.stringify((b.j.viol || []).map(sigOf));
    console.log(`--- ${label}: ${check.caseKey(c)}`);
    for (const q of a.reqs) console.log(q.src + (q.opts ? `\n// opts: ${q.opts}` : ''));
    if (sa !== sb) { console.log(`ENGINE-ERROR replay diverged between processes: ${sa} vs ${sb}`); driver.close(); return 2; }
    for (const v of a.j.viol || []) {
      const hit = v.clause === rec.clause && v.diff === rec.diff;
      console.log(`${hit ? 'REPRODUCED' : 'other'}: clause=${v.clause} diff=${v.diff}\n  ${v.msg || ''}\n  expected: ${JSON.stringify(v.expected)}\n  observed: ${JSON.stringify(v.observed)}`);
      if (hit) bad = true;
    }
    if (!(a.j.viol || []).length) console.log('no violation on this case');
  }
  driver.close();
  if (bad) console.log(`VIOLATION property=${id} replay=${file}`);
  return bad ? 1 : 0;
}

module.exports = { workerMain, parentMain, replayMain, ROOT };
