'use strict';
// Evaluates the driver's eval-ready rendering against the mock runtime.
// Unbound identifiers of the generated program are installed as globals (optionally with logging
// getters) for the duration of the callback, so that slot thunks invoked by a judge still see them.
const { makeRuntime, transformOn } = require('./vue');

function withModule(code, env, body) {
  const rec = { vnodes: [], resolved: [], defineCalls: [], pragmaCalls: [], trace: [] };
  const vue = makeRuntime(rec);
  const modules = Object.assign({}, env.modules || {});
  const __import = (src) => {
    if (src === 'vue') return env.vueOverride ? Object.assign({}, vue, env.vueOverride(vue, rec)) : vue;
    if (src === '@vue/babel-helper-vue-transform-on') return { default: transformOn };
    if (modules[src]) return modules[src];
    return {};
  };
  const globals = env.globals || {};
  const installed = [];
  const saved = new Map();
  for (const name of Object.keys(globals)) {
    if (Object.prototype.hasOwnProperty.call(globalThis, name)) saved.set(name, Object.getOwnPropertyDescriptor(globalThis, name));
    const value = globals[name];
    if (env.traceGlobals) {
      Object.defineProperty(globalThis, name, {
        configurable: true,
        get() { rec.trace.push('get:' + name); return value; },
        set(v) { rec.trace.push('set:' + name); },
      });
    } else {
      Object.defineProperty(globalThis, name, { configurable: true, writable: true, value });
    }
    installed.push(name);
  }
  const out = {};
  let loadError = null;
  let result;
  try {
    try {
      // a hashbang line is only legal at the very start of a file, not inside a function body
      const fn = new Function('__import', '__env', '__out', '"use strict";\n' + String(code).replace(/^#![^\n]*\n/, ''));
      fn(__import, env, out);
    } catch (e) {
      loadError = e;
    }
    result = body(out, rec, loadError, vue);
  } finally {
    for (const name of installed) {
      delete globalThis[name];
      if (saved.has(name)) Object.defineProperty(globalThis, name, saved.get(name));
    }
  }
  return result;
}

function errStr(e) {
  if (e && typeof e === 'object' && 'name' in e) return `${e.name}: ${e.message}`;
  return String(e);
}

module.exports = { withModule, errStr };
