'use strict';
// Deterministic breadth-first enumerators (shorter histories first, alphabet order within a length).

// all sequences over `n` symbols of length 0..maxLen, as arrays of indexes
function* sequences(n, maxLen, opts = {}) {
  const { distinct = false, minLen = 0, ok } = opts;
  for (let len = minLen; len <= maxLen; len++) {
    const idx = new Array(len).fill(0);
    if (len === 0) { yield []; continue; }
    const rec = function* (pos) {
      if (pos === len) { yield idx.slice(); return; }
      for (let i = 0; i < n; i++) {
        if (distinct && idx.slice(0, pos).includes(i)) continue;
        idx[pos] = i;
        if (ok && !ok(idx, pos)) continue;
        yield* rec(pos + 1);
      }
    };
    yield* rec(0);
  }
}

// sorted multisets (non-decreasing index sequences) of size 0..maxLen
function* multisets(n, maxLen, minLen = 0) {
  for (let len = minLen; len <= maxLen; len++) {
    const idx = new Array(len).fill(0);
    if (len === 0) { yield []; continue; }
    const rec = function* (pos, from) {
      if (pos === len) { yield idx.slice(); return; }
      for (let i = from; i < n; i++) { idx[pos] = i; yield* rec(pos + 1, i); }
    };
    yield* rec(0, 0);
  }
}

// cartesian product of arrays of choices
function* product(dims) {
  const n = dims.length;
  if (n === 0) { yield []; return; }
  const idx = new Array(n).fill(0);
  for (;;) {
    yield idx.map((i, d) => dims[d][i]);
    let d = n - 1;
    while (d >= 0) {
      idx[d]++;
      if (idx[d] < dims[d].length) break;
      idx[d] = 0; d--;
    }
    if (d < 0) return;
  }
}

function* boolVectors(keys) {
  for (const v of product(keys.map(() => [false, true]))) {
    const o = {};
    keys.forEach((k, i) => { o[k] = v[i]; });
    yield o;
  }
}

module.exports = { sequences, multisets, product, boolVectors };
