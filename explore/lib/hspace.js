'use strict';
// Explorer H: module-item histories. An item is (context ∘ lowering), a distractor, or a special
// statement-level form. Every item is self-contained (names carry the item's position index) so that
// the same item can be rendered alone or inside any history.
const { Names, canonValue } = require('./canon');
const { withModule, errStr } = require('./evalmod');

// ---- lowerings: JSX expression text; `needs` documents what the transform has to introduce
const L = {
  plain:     { J: '<div id={x} />', needs: 'createVNode' },
  text:      { J: '<div>a</div>', needs: 'createTextVNode' },
  frag:      { J: '<>{x}</>', needs: 'Fragment' },
  unbound:   { J: '<Unb id="u" />', needs: 'resolveComponent' },
  identChild:{ J: '<Comp>{xx}</Comp>', needs: '_isSlot helper + isVNode', temp: true },
  callChild: { J: '<Comp>{f()}</Comp>', needs: '_slot temporary', temp: true },
  twoCalls:  { J: '<div><Comp>{f()}</Comp><B>{g()}</B></div>', needs: '_slot, _slot2', temp: true },
  vmodel:    { J: '<input v-model={mv} />', needs: '$event parameter, vModelText, withDirectives' },
  directive: { J: '<div v-foo={x} />', needs: 'resolveDirective, withDirectives' },
  transformOn:{ J: '<div on={{ click: h1 }} />', needs: '_transformOn default import' },
  spread:    { J: '<div {...s1} id="a" />', needs: 'mergeProps' },
  fragAlias: { J: '<Fragment>{x}{y}</Fragment>', needs: 'Fragment' },
};
// ---- contexts: tpl(i, J) and nothing else; the observation point is always __out['k' + i]
const K = {
  constinit: (i, J) => `const v${i} = ${J};\n__out.k${i} = () => v${i};`,
  stmt:      (i, J) => `__out.s${i} = ${J};\n__out.k${i} = () => __out.s${i};`,
  fn:        (i, J) => `function f${i}() { return ${J}; }\n__out.k${i} = () => f${i}();`,
  method:    (i, J) => `const ob${i} = { m() { return ${J}; } };\n__out.k${i} = () => ob${i}.m();`,
  getter:    (i, J) => `const og${i} = { get g() { return ${J}; } };\n__out.k${i} = () => og${i}.g;`,
  block:     (i, J) => `let vb${i};\n{ vb${i} = ${J}; }\n__out.k${i} = () => vb${i};`,
  arrowExpr: (i, J) => `const a${i} = () => ${J};\n__out.k${i} = () => a${i}();`,
  arrowBlock:(i, J) => `const a${i} = () => { return ${J}; };\n__out.k${i} = () => a${i}();`,
  field:     (i, J) => `class K${i} { f = ${J}; }\n__out.k${i} = () => new K${i}().f;`,
  staticField:(i, J) => `class S${i} { static f = ${J}; }\n__out.k${i} = () => S${i}.f;`,
  defparam:  (i, J) => `function f${i}(p = ${J}) { return p; }\n__out.k${i} = () => f${i}();`,
  arrowDefparam: (i, J) => `const a${i} = (p = ${J}) => p;\n__out.k${i} = () => a${i}();`,
  loopBare:  (i, J) => `const r${i} = [];\nfor (const q of [0, 1]) r${i}.push(${J});\n__out.k${i} = () => r${i};`,
  loopBlock: (i, J) => `const r${i} = [];\nfor (const q of [0, 1]) { r${i}.push(${J}); }\n__out.k${i} = () => r${i};`,
  ifBare:    (i, J) => `let vi${i};\nif (c) vi${i} = ${J};\n__out.k${i} = () => vi${i};`,
  switchCase:(i, J) => `function f${i}(s) { switch (s) { case 0: return ${J}; default: return null; } }\n__out.k${i} = () => f${i}(0);`,
  tryCatch:  (i, J) => `function f${i}() { try { return ${J}; } catch (e) { return null; } }\n__out.k${i} = () => f${i}();`,
  labelled:  (i, J) => `let vl${i};\nlbl${i}: { vl${i} = ${J}; break lbl${i}; }\n__out.k${i} = () => vl${i};`,
  cond:      (i, J) => `const a${i} = (w) => (w ? ${J} : null);\n__out.k${i} = () => a${i}(true);`,
  asyncArrow:(i, J) => `const aa${i} = async () => ${J};\n__out.k${i} = () => { const pr = aa${i}(); return __env.settle(pr); };`,
  asyncFn:   (i, J) => `async function af${i}() { return ${J}; }\n__out.k${i} = () => __env.settle(af${i}());`,
  generator: (i, J) => `function* gn${i}() { yield ${J}; }\n__out.k${i} = () => gn${i}().next().value;`,
  classMethod: (i, J) => `class M${i} { m() { return ${J}; } }\n__out.k${i} = () => new M${i}().m();`,
  classGetter: (i, J) => `class G${i} { get g() { return ${J}; } }\n__out.k${i} = () => new G${i}().g;`,
  classStatic: (i, J) => `class St${i} { static m() { return ${J}; } }\n__out.k${i} = () => St${i}.m();`,
  classCtor: (i, J) => `class Ct${i} { constructor() { this.v = ${J}; } }\n__out.k${i} = () => new Ct${i}().v;`,
  staticBlock: (i, J) => `class Sb${i} { static v; static { Sb${i}.v = ${J}; } }\n__out.k${i} = () => Sb${i}.v;`,
  privateField: (i, J) => `class Pf${i} { #f = ${J}; get f() { return this.#f; } }\n__out.k${i} = () => new Pf${i}().f;`,
  iifeArrow: (i, J) => `const ia${i} = (() => ${J})();\n__out.k${i} = () => ia${i};`,
  iifeFn: (i, J) => `const if${i} = (function () { return ${J}; })();\n__out.k${i} = () => if${i};`,
  arrayElem: (i, J) => `const ar${i} = () => [${J}, 1];\n__out.k${i} = () => ar${i}();`,
  objProp: (i, J) => `const op${i} = () => ({ p: ${J} });\n__out.k${i} = () => op${i}();`,
  callArg: (i, J) => `const ca${i} = () => idf(${J});\n__out.k${i} = () => ca${i}();`,
  newArg: (i, J) => `const na${i} = () => new Box(${J}).v;\n__out.k${i} = () => na${i}();`,
  logical: (i, J) => `const lg${i} = () => c && ${J};\n__out.k${i} = () => lg${i}();`,
  condBoth: (i, J) => `const cb${i} = (w) => (w ? ${J} : ${J});\n__out.k${i} = () => [cb${i}(true), cb${i}(false)];`,
  sequence: (i, J) => `const sq${i} = () => (0, ${J});\n__out.k${i} = () => sq${i}();`,
  attrArrow: (i, J) => `const aa${i} = () => <div onClick={() => ${J}} />;\n__out.k${i} = () => aa${i}().props.onClick();`,
  vslotsValue: (i, J) => `const vv${i} = () => <Comp v-slots={{ foo: () => ${J} }} />;\n__out.k${i} = () => vv${i}().children.foo();`,
  childExpr: (i, J) => `const ce${i} = () => <div>{c ? ${J} : null}</div>;\n__out.k${i} = () => ce${i}();`,
  forOfHeader: (i, J) => `const fh${i} = [];\nfor (const q of [${J}]) fh${i}.push(q);\n__out.k${i} = () => fh${i};`,
  whileBare: (i, J) => `let wn${i} = 0;\nlet ww${i};\nwhile (wn${i}++ < 2) ww${i} = ${J};\n__out.k${i} = () => ww${i};`,
  doWhile: (i, J) => `let dn${i} = 0;\nlet dw${i};\ndo dw${i} = ${J}; while (dn${i}++ < 1);\n__out.k${i} = () => dw${i};`,
  methodDefparam: (i, J) => `const om${i} = { m(p = ${J}) { return p; } };\n__out.k${i} = () => om${i}.m();`,
  destructDefault: (i, J) => `const dd${i} = () => { const { z = ${J} } = {}; return z; };\n__out.k${i} = () => dd${i}();`,
  paramDestructDefault: (i, J) => `function pd${i}({ p = ${J} } = {}) { return p; }\n__out.k${i} = () => pd${i}();`,
  tryFinally: (i, J) => `function tf${i}() { try { return ${J}; } finally { idf(0); } }\n__out.k${i} = () => tf${i}();`,
  catchBody: (i, J) => `function cb2${i}() { try { throw 0; } catch { return ${J}; } }\n__out.k${i} = () => cb2${i}();`,
  multiDeclarator: (i, J) => `const md${i} = 1, me${i} = ${J}, mf${i} = 2;\n__out.k${i} = () => me${i};`,
  exportConst: (i, J) => `export const ex${i} = ${J};\n__out.k${i} = () => ex${i};`,
  exportFn: (i, J) => `export function ef${i}() { return ${J}; }\n__out.k${i} = () => ef${i}();`,
  switchCaseBare: (i, J) => `let sc${i};\nswitch (0) { case 0: sc${i} = ${J}; break; default: sc${i} = null; }\n__out.k${i} = () => sc${i};`,
  fnExpr: (i, J) => `const fe${i} = function () { return ${J}; };\n__out.k${i} = () => fe${i}();`,
  namedFnExpr: (i, J) => `const nf${i} = function inner${i}() { return ${J}; };\n__out.k${i} = () => nf${i}();`,
  classExpr: (i, J) => `const Ce${i} = class { m() { return ${J}; } };\n__out.k${i} = () => new Ce${i}().m();`,
  taggedTpl: (i, J) => `const tt${i} = () => idt\`a\${${J}}b\`;\n__out.k${i} = () => tt${i}();`,
  spreadArg: (i, J) => `const sa2${i} = () => idf(...[${J}]);\n__out.k${i} = () => sa2${i}();`,
  optCallArg: (i, J) => `const oc${i} = () => idf?.(${J});\n__out.k${i} = () => oc${i}();`,
  nullishAssign: (i, J) => `const nz${i} = () => { let z = null; z ??= ${J}; return z; };\n__out.k${i} = () => nz${i}();`,
  memberAssign: (i, J) => `const ma${i} = {};\nma${i}.p = ${J};\n__out.k${i} = () => ma${i}.p;`,
  nestedBlocks: (i, J) => `let nb${i};\n{ { nb${i} = ${J}; } }\n__out.k${i} = () => nb${i};`,
  ifElse: (i, J) => `let ie${i};\nif (!c) { ie${i} = null; } else { ie${i} = ${J}; }\n__out.k${i} = () => ie${i};`,
  forClassic: (i, J) => `const fc${i} = [];\nfor (let q = 0; q < 2; q++) fc${i}.push(${J});\n__out.k${i} = () => fc${i};`,
  arrowDestructDefault: (i, J) => `const ad${i} = ({ p = ${J} } = {}) => p;\n__out.k${i} = () => ad${i}();`,
  arrowArrayDefault: (i, J) => `const ay${i} = ([q = ${J}] = []) => q;\n__out.k${i} = () => ay${i}();`,
  arrowRestDefault: (i, J) => `const ar2${i} = (...[r = ${J}]) => r;\n__out.k${i} = () => ar2${i}();`,
  arrowNestedDefault: (i, J) => `const an2${i} = ({ o: { p = ${J} } = {} } = {}) => p;\n__out.k${i} = () => an2${i}();`,
  fnArrayDefault: (i, J) => `function fa${i}([q = ${J}] = []) { return q; }\n__out.k${i} = () => fa${i}();`,
  // depth-2 contexts
  fnInArrow: (i, J) => `const a${i} = () => { function inner() { return ${J}; } return inner(); };\n__out.k${i} = () => a${i}();`,
  arrowInFn: (i, J) => `function f${i}() { const inner = () => ${J}; return inner(); }\n__out.k${i} = () => f${i}();`,
  arrowInArrow: (i, J) => `const a${i} = () => () => ${J};\n__out.k${i} = () => a${i}()();`,
  fieldArrow:(i, J) => `class K${i} { f = () => ${J}; }\n__out.k${i} = () => new K${i}().f();`,
};
// ---- distractors and special statement-level forms: tpl(i) ; `once` = may appear at most once per history
const D = {
  assignSame:  { tpl: (i) => `xx = __env.bound.xx;\n__out.k${i} = () => xx;` },
  assignOther: { tpl: (i) => `yy = __env.bound.yy;\n__out.k${i} = () => yy;` },
  assignInFn:  { tpl: (i) => `function d${i}() { xx = __env.bound.xx; return xx; }\n__out.k${i} = () => d${i}();` },
  fnNoJsx:     { tpl: (i) => `function d${i}() { return 1; }\n__out.k${i} = () => d${i}();` },
  arrowNoJsx:  { tpl: (i) => `const d${i} = () => 1;\n__out.k${i} = () => d${i}();` },
  arrowBlockNoJsx: { tpl: (i) => `const d${i} = () => { const z = 2; return z; };\n__out.k${i} = () => d${i}();` },
  classNoJsx:  { tpl: (i) => `class D${i} { m() { return 1; } }\n__out.k${i} = () => new D${i}().m();` },
  blockNoJsx:  { tpl: (i) => `{ const z${i} = 3; __out.z${i} = z${i}; }\n__out.k${i} = () => __out.z${i};` },
  // comments in front of a statement that carry annotations of other tool chains (none of them names a vnode factory)
  cmtRuntime:  { once: true, group: 'cmt', tpl: (i) => `/* @jsxRuntime classic */\nconst cr${i} = 1;\n__out.k${i} = () => cr${i};` },
  cmtImportSource: { once: true, group: 'cmt', tpl: (i) => `/** @jsxImportSource vue */\nconst ci${i} = 2;\n__out.k${i} = () => ci${i};` },
  cmtFragLine: { once: true, group: 'cmt', tpl: (i) => `// @jsxFrag Fragment\nconst cf${i} = 3;\n__out.k${i} = () => cf${i};` },
  cmtProse:    { once: true, group: 'cmt', tpl: (i) => `/* eslint-disable */\n/* we do not set the @jsx pragma here */\nconst cp${i} = 4;\n__out.k${i} = () => cp${i};` },
  // two lowerings that need temporaries in one function body (a call child, then an expression-bodied arrow with one)
  fnTwoTemps:  { tpl: (i) => `function ft${i}() { const a = <Comp>{fi(${i})}</Comp>; const g2 = (q) => <B>{gi(q)}</B>; return [a, g2(${i})]; }\n__out.k${i} = () => ft${i}();`, jsx: true },
  fnTempArrowTemp: { tpl: (i) => `function fu${i}() { const a = <Comp>{fi(${i})}</Comp>; const g2 = () => <B>{gi(${i})}</B>; const d = <Comp>{fi(${i} + 100)}</Comp>; return [a, g2(), d]; }\n__out.k${i} = () => fu${i}();`, jsx: true },
  // a statement that is only a string literal, not at the head of the module
  strStmt:     { tpl: (i) => `'marker ${i}';\n__out.k${i} = () => 1;` },
  // a tag spelled like a Fragment alias of the module but bound to something else; v-slots on a plain element
  tagParamFragName: { tpl: (i) => `const tq${i} = (_Fragment) => <_Fragment>{x}{y}</_Fragment>;\n__out.k${i} = () => tq${i}(Comp);`, jsx: true },
  vslotsOnElement: { tpl: (i) => `__out.k${i} = () => <div v-slots={{ foo: h1 }}>t{x}</div>;`, jsx: true },
  vslotsThenBareJsx: { tpl: (i) => `__out.k${i} = () => <Comp v-slots={{ foo: h1 }} icon=<B id="b">inner</B>>outer</Comp>;`, jsx: true },
  // statement lists that are empty (nothing to visit in them)
  emptyFn:     { tpl: (i) => `function en${i}() {}\n__out.k${i} = () => en${i}();` },
  emptyClassMethod: { tpl: (i) => `class Ec${i} { m() {} static {} }\n__out.k${i} = () => new Ec${i}().m();` },
  emptyCatch:  { tpl: (i) => `let ek${i} = 0;\ntry { ek${i} = 1; } catch {} finally {}\n__out.k${i} = () => ek${i};` },
  emptyIfLoop: { tpl: (i) => `if (c) {} else {}\nfor (const q of []) {}\n__out.k${i} = () => 1;` },
  emptyArrowBlock: { tpl: (i) => `const eb${i} = () => {};\n__out.k${i} = () => eb${i}();` },
  emptySwitch: { tpl: (i) => `switch (0) { case 0: default: }\n{}\n__out.k${i} = () => 1;` },
  userSlot:    { once: true, tpl: (i) => `const _slot = 'user_slot';\n__out.k${i} = () => _slot;` },
  userIsSlot:  { once: true, tpl: (i) => `const _isSlot = 'user_isSlot';\n__out.k${i} = () => _isSlot;` },
  userCreateVNode: { once: true, tpl: (i) => `const _createVNode = 'user_createVNode';\n__out.k${i} = () => _createVNode;` },
  userFragment:{ once: true, group: 'fragname', tpl: (i) => `const _Fragment = 'user_Fragment';\n__out.k${i} = () => _Fragment;` },
  userIsVNode: { once: true, tpl: (i) => `const _isVNode = 'user_isVNode';\n__out.k${i} = () => _isVNode;` },
  userMergeProps: { once: true, tpl: (i) => `const _mergeProps = 'user_mergeProps';\n__out.k${i} = () => [_mergeProps, <div {...s1} id="a" />];`, jsx: true },
  userWithDirectives: { once: true, tpl: (i) => `const _withDirectives = 'user_withDirectives';\n__out.k${i} = () => [_withDirectives, <div v-foo={x} />];`, jsx: true },
  userResolveComponent: { once: true, tpl: (i) => `const _resolveComponent = 'user_resolveComponent';\n__out.k${i} = () => [_resolveComponent, <Unb2 id="u" />];`, jsx: true },
  userResolveDirective: { once: true, tpl: (i) => `function _resolveDirective() { return 'user_rd'; }\n__out.k${i} = () => [_resolveDirective(), <p v-bar={y} />];`, jsx: true },
  userVModelText: { once: true, tpl: (i) => `let _vModelText = 'user_vModelText';\n__out.k${i} = () => [_vModelText, <input v-model={mv} />];`, jsx: true },
  userTextVNode: { once: true, tpl: (i) => `var _createTextVNode = 'user_ctv';\n__out.k${i} = () => [_createTextVNode, <div>t{x}</div>];`, jsx: true },
  userTransformOn: { once: true, tpl: (i) => `const _transformOn = 'user_transformOn';\n__out.k${i} = () => [_transformOn, <div on={{ click: h1 }} />];`, jsx: true },
  userEvent:   { once: true, tpl: (i) => `let $event = 'user_event';\n__out.k${i} = () => [$event, <input v-model={$event} />];\n__out.fire${i} = (v) => { const vn = __out.k${i}()[1]; vn.props['onUpdate:modelValue'](v); return $event; };`, jsx: true, fire: true },
  importCreateVNode: { once: true, tpl: (i) => `import { createVNode } from 'vue';\n__out.k${i} = () => typeof createVNode;` },
  importFragmentAlias: { once: true, group: 'fragname', tpl: (i) => `import { Fragment as _Fragment } from 'vue';\n__out.k${i} = () => <_Fragment>{x}{y}</_Fragment>;`, jsx: true },
  importH:     { once: true, tpl: (i) => `import { h } from 'vue';\n__out.k${i} = () => h('p', null, null);` },
  // the same tag name under different bindings (classification must be per occurrence)
  tagUnbound:  { tpl: (i) => `__out.k${i} = () => <Item id="u" />;`, jsx: true },
  tagLocal:    { tpl: (i) => `function tl${i}() { const Item = B; return <Item id="l" />; }\n__out.k${i} = () => tl${i}();`, jsx: true },
  tagParam:    { tpl: (i) => `const tp${i} = (Item) => <Item id="p" />;\n__out.k${i} = () => tp${i}(Comp);`, jsx: true },
  // special statement-level lowerings
  selfAssign:  { tpl: (i) => `var sa${i} = x;\nsa${i} = <Comp>{sa${i}}</Comp>;\n__out.k${i} = () => sa${i};`, jsx: true },
  selfAssignLet: { tpl: (i) => `let sl${i} = x;\nsl${i} = <Comp>{sl${i}}</Comp>;\n__out.k${i} = () => sl${i};`, jsx: true },
  selfAssignFn:{ tpl: (i) => `function sf${i}(p) { p = <Comp>{p}</Comp>; return p; }\n__out.k${i} = () => sf${i}(x);`, jsx: true },
  selfAssignArrow: { tpl: (i) => `var sw${i} = x;\nconst aw${i} = () => (sw${i} = <Comp>{sw${i}}</Comp>);\n__out.k${i} = () => aw${i}();`, jsx: true },
  selfAssignTwice: { tpl: (i) => `function st${i}(p) { p = <Comp>{p}</Comp>; p = <B>{p}</B>; return p; }\n__out.k${i} = () => st${i}(x);`, jsx: true },
  selfAssignTwiceMod: { tpl: (i) => `var sm${i} = x;\nsm${i} = <Comp>{sm${i}}</Comp>;\nsm${i} = <B>{sm${i}}</B>;\n__out.k${i} = () => sm${i};`, jsx: true },
  // element-level state that must not outlive its element (tag classification, `type` of an input, text fast paths, attribute-valued JSX)
  memberNativeTag: { tpl: (i) => `__out.k${i} = () => <nsx.div id="m">t{x}</nsx.div>;`, jsx: true },
  nativeChildren:  { tpl: (i) => `__out.k${i} = () => <div id="n">t{x}</div>;`, jsx: true },
  typeCheckboxNoDir: { tpl: (i) => `__out.k${i} = () => <input type="checkbox" id={x} />;`, jsx: true },
  typeDynNoDir:    { tpl: (i) => `__out.k${i} = () => <input type={c1} />;`, jsx: true },
  tplChildComp:    { tpl: (i) => `__out.k${i} = () => <Comp>{\`a \${x}\`}</Comp>;`, jsx: true },
  tplChildFrag:    { tpl: (i) => `__out.k${i} = () => <>{\`t \${x}\`}</>;`, jsx: true },
  tplChildEl:      { tpl: (i) => `__out.k${i} = () => <p>{\`e \${x}\`}</p>;`, jsx: true },
  singleChildEl:   { tpl: (i) => `__out.k${i} = () => <ul>{g()}</ul>;`, jsx: true },
  nestedSingle:    { tpl: (i) => `__out.k${i} = () => <p><Comp>{\`n \${x}\`}</Comp></p>;`, jsx: true },
  attrBareJsx:     { tpl: (i) => `__out.k${i} = () => <Comp icon=<i/>>{xx}</Comp>;`, jsx: true },
  dirThenBareJsx:  { tpl: (i) => `__out.k${i} = () => <Comp v-foo={x} icon=<B /> />;`, jsx: true },
  // the same without any arrow function of its own (a pending capture must not end up in somebody else's arrow)
  selfAssignFnObs: { tpl: (i) => `var so${i} = x;\nso${i} = <Comp>{so${i}}</Comp>;\n__out.k${i} = function () { return so${i}; };`, jsx: true },
  // needs the listener helper and nothing else from the runtime
  onOnly:          { tpl: (i) => `__out.k${i} = () => <div on={{ click: h1 }} />;`, jsx: true },
  selfAssignArrowParam: { tpl: (i) => `const ap${i} = (p) => (p = <Comp>{p}</Comp>);\n__out.k${i} = () => ap${i}(x);`, jsx: true },
  selfAssignArrowLet: { tpl: (i) => `let sq${i} = x;\nconst aq${i} = () => (sq${i} = <B>{sq${i}}</B>);\n__out.k${i} = () => aq${i}();`, jsx: true },
  // `await` / `yield` of the enclosing function: fine among an element's children, not available inside a slot function
  awaitInElement: { tpl: (i) => `async function ae${i}() { return <div>{await idf(x)}</div>; }\n__out.k${i} = () => __env.settle(ae${i}());`, jsx: true },
  awaitInAttr:    { tpl: (i) => `async function aa2${i}() { return <Comp id={await idf(x)} />; }\n__out.k${i} = () => __env.settle(aa2${i}());`, jsx: true },
  awaitInSlot:    { tpl: (i) => `async function as${i}() { return <Comp><div>{await idf(x)}</div></Comp>; }\n__out.k${i} = () => __env.settle(as${i}());`, jsx: true, diag: true },
  awaitSoleChild: { tpl: (i) => `async function ac${i}() { return <Comp>{await idf(x)}</Comp>; }\n__out.k${i} = () => __env.settle(ac${i}());`, jsx: true, diag: true },
  yieldInSlot:    { tpl: (i) => `function* ys${i}() { return <Comp>{yield 1}{x}</Comp>; }\n__out.k${i} = () => typeof ys${i}().next;`, jsx: true, diag: true },
  awaitInModel:   { tpl: (i) => `async function am${i}() { return <Comp v-model={(await idf(__env)).mv0} />; }\n__out.k${i} = () => __env.settle(am${i}());`, jsx: true, diag: true },
  awaitInModelKey: { tpl: (i) => `async function ak${i}() { return <input v-model={__env[await idf('mv0')]} />; }\n__out.k${i} = () => __env.settle(ak${i}());`, jsx: true, diag: true },
  awaitInNestedFn: { tpl: (i) => `async function an${i}() { return <Comp>{async () => await idf(x)}</Comp>; }\n__out.k${i} = () => __env.settle(an${i}());`, jsx: true },
  pragmaLike:  { tpl: (i) => `const pr${i} = <div class={c1}>{xx}</div>;\n__out.k${i} = () => pr${i};`, jsx: true },
};

// TypeScript-only items (modules rendered with these are parsed as .tsx and get the TS prelude)
const T = {
  dcProps:   (i) => `const DC${i} = defineComponent((props: { a: string }) => () => <div>{props.a}</div>);\n__out.k${i} = () => 1;`,
  dcIface:   (i) => `interface PI${i} { a?: number; b: string }\nconst DO${i} = defineComponent((props: PI${i}) => () => null, { inheritAttrs: false });\n__out.k${i} = () => 1;`,
  dcIdentOpts: (i) => `const uo${i} = { inheritAttrs: false };\nconst DI${i} = defineComponent((props: { a: string }) => null, uo${i});\n__out.k${i} = () => 1;`,
  dcEmits:   (i) => `const DE${i} = defineComponent((props: { a: string }, ctx: SetupContext<{ (e: 'x'): void }>) => () => <i />);\n__out.k${i} = () => 1;`,
  dcDefault: (i) => `const DD${i} = defineComponent((props: { a?: string } = { a: 'z' }) => null);\n__out.k${i} = () => 1;`,
  dcDynDefault: (i) => `const DY${i} = defineComponent((props: { a?: string } = uo as any) => null);\n__out.k${i} = () => 1;`,
  dcSpreadDefault: (i) => `const DS${i} = defineComponent((props: { a?: string } = { ...(uo as any) }) => null, { inheritAttrs: false });\n__out.k${i} = () => 1;`,
  dcOwnPropsDynDefault: (i) => `const DW${i} = defineComponent((props: { a?: string } = uo as any) => null, { props: { a: String } });\n__out.k${i} = () => 1;`,
  dcJsxDefault: (i) => `const DJ${i} = defineComponent((props: { icon?: object } = { icon: <i class="x" /> }) => () => null);\n__out.k${i} = () => 1;`,
  dcJsxDynDefault: (i) => `const DK${i} = defineComponent((props: { icon?: object } = f(<i class="y" />) as any) => () => <b />);\n__out.k${i} = () => 1;`,
  localDc:   (i) => `function ldc${i}() { const defineComponent = (s: any, o?: any) => [s, o]; const Loc = defineComponent((props: { a: string }) => null); return Loc; }\n__out.k${i} = () => ldc${i}().length;`,
  tsDecl:    (i) => `type TA${i} = { x: number };\ninterface TI${i} { y: string }\n__out.k${i} = () => 1;`,
  asExpr:    (i) => `const ae${i} = (x as any) satisfies unknown;\n__out.k${i} = () => ae${i};`,
  typedArrow:(i) => `const ta${i} = (p: number): any => <Comp>{f()}</Comp>;\n__out.k${i} = () => ta${i}(1);`,
  genericArrow: (i) => `const ga${i} = <Q,>(p: Q): any => <Comp>{xx}</Comp>;\n__out.k${i} = () => ga${i}(1);`,
  asyncTyped:(i) => `const at${i} = async (p?: number): Promise<any> => <Comp>{f()}</Comp>;\n__out.k${i} = () => __env.settle(at${i}());`,
  callDc:    (i) => `defineComponent((props: { q: boolean }) => () => null);\n__out.k${i} = () => 1;`,
  dcDupAny:  (i) => `interface DP${i} { v: string }\ninterface DP${i} { v: any }\nconst DQ${i} = defineComponent((props: DP${i}) => () => null);\n__out.k${i} = () => 1;`,
  dcInterUnknown: (i) => `const DU${i} = defineComponent((props: { v: string; w: number } & { v?: unknown; w: boolean }) => () => null);\n__out.k${i} = () => 1;`,
  dcThreeArgs: (i) => `const DT${i} = defineComponent((props: { a: string }) => () => null, uo, 'extra');\n__out.k${i} = () => 1;`,
  dcThreeArgsTyped: (i) => `const DV${i} = defineComponent((props: { a: string }, ctx: SetupContext<{ (e: 'x'): void }>) => () => null, uo as any, ...([] as any[]));\n__out.k${i} = () => 1;`,
  dcShadowParam: (i) => `function sh${i}(defineComponent: any) { const Inner = defineComponent((props: { a: string }) => () => null); return Inner; }\n__out.k${i} = () => typeof sh${i};`,
  dcWrappedOpts: (i) => `const DW2${i} = defineComponent((props: { a: string }) => () => null, { inheritAttrs: false } as any);\nconst DW3${i} = defineComponent((props: { b: number }) => () => null, ({ inheritAttrs: false }) satisfies object);\n__out.k${i} = () => 1;`,
  dcNoArgs:  (i) => `const DN${i} = (defineComponent as any)();\nlet dn${i};\ndn${i} = defineComponent();\n__out.k${i} = () => 1;`.replace('(defineComponent as any)()', 'defineComponent()'),
  dcOddArgs: (i) => `const DO2${i} = defineComponent(null, undefined);\nconst DO3${i} = defineComponent(...[]);\nconst DO4${i} = defineComponent(uo);\n__out.k${i} = () => 1;`,
  dcTplKeyProps: (i) => `const DL${i} = defineComponent((props: { [\`foo-bar\`]: string; [\`baz\`]?: number; ['q r']: boolean }) => () => null);\n__out.k${i} = () => 1;`,
  exportDc:  (i) => `export const ED${i} = defineComponent((props: { a: string }) => null, { name: 'Own' });\n__out.k${i} = () => 1;`,
};
const TS_PRELUDE = "import { defineComponent, SetupContext } from 'vue';\nconst uo = __env.bound;\n";

function itemSrc(item, i) {
  if (item.t) return T[item.t](i);
  if (item.d) return D[item.d].tpl(i);
  // every occurrence of a lowering calls its own instance of the environment functions (fi(i), gi(i)), so that two
  // occurrences sharing one generated temporary are told apart
  return K[item.k](i, L[item.l].J.replace(/\bf\(\)/g, `fi(${i})`).replace(/\bg\(\)/g, `gi(${i})`));
}
function itemKey(item) { return item.t ? 'T:' + item.t : item.d ? 'D:' + item.d : `${item.k}∘${item.l}`; }
const T_JSX = new Set(['dcJsxDefault', 'dcJsxDynDefault', 'dcProps', 'dcEmits', 'typedArrow', 'genericArrow', 'asyncTyped']);
const T_DC = new Set(['dcWrappedOpts', 'dcNoArgs', 'dcOddArgs', 'dcDupAny', 'dcInterUnknown', 'dcThreeArgs', 'dcThreeArgsTyped', 'dcProps', 'dcIface', 'dcIdentOpts', 'dcEmits', 'dcDefault', 'dcDynDefault', 'dcSpreadDefault', 'dcOwnPropsDynDefault', 'dcJsxDefault', 'dcJsxDynDefault', 'callDc', 'exportDc', 'dcTplKeyProps']);
function itemHasJsx(item) { return item.t ? T_JSX.has(item.t) : item.d ? !!D[item.d].jsx : true; }
function itemAugmentable(item) { return !!item.t && T_DC.has(item.t); }

const PRELUDE = 'const { Comp, B, nsx, s1, h1, c1, x, y, c, f, g, fi, gi } = __env.bound;\nconst idf = (v) => v;\nconst idt = (s, ...v) => v[0];\nclass Box { constructor(v) { this.v = v; } }\nlet xx = __env.bound.xx;\nlet yy = __env.bound.yy;\nlet mv = __env.mv0;\n';

function renderHistory(items, ts) {
  return (ts ? TS_PRELUDE : '') + PRELUDE + items.map((it, i) => itemSrc(it, i)).join('\n') + '\n';
}
function renderAlone(item, i = 0) { return PRELUDE + itemSrc(item, i) + '\n'; }

function makeEnv() {
  const names = new Names();
  const comp = (n) => names.reg({ __component: n }, n);
  const vn = (t) => ({ __v_isVNode: true, type: t, props: null, children: null });
  const bound = {
    Comp: comp('Comp'), B: comp('B'), nsx: { div: comp('nsx.div') }, s1: { id: 's1id', class: 's1c' }, h1: names.reg(() => {}, 'h1'), c1: 'c1cls',
    x: 'xval', y: 'yval', xx: vn('xxnode'), yy: 'yyval', c: true,
    f: names.reg(() => vn('fres'), 'f'), g: names.reg(() => 'gres', 'g'),
    fi: names.reg((i) => vn('fres' + i), 'fi'), gi: names.reg((i) => 'gres' + i, 'gi'),
  };
  // stub for a configured pragma (`hh`): same observable record as createVNode
  const hh = (type, props, children) => ({ __v_isVNode: true, type, props: props || null, children: children === undefined ? null : children, dirs: null });
  // state of a promise, read synchronously (an async function that throws before its first await returns an already
  // rejected promise; left alone it would end the worker as an unhandled rejection)
  const settle = (p) => { if (!p || typeof p.then !== 'function') return 'not-a-promise'; p.catch(() => {}); const t = require('util').inspect(p, { depth: 0 }); const m = /<rejected> (\w+)/.exec(t); return m ? 'rejected:' + m[1] : /<pending>/.test(t) ? 'pending' : 'fulfilled'; };
  return { bound, names, mv0: 'mv0', globals: { hh }, settle };
}

// loads the module and activates observation point(s); returns {load?, values: [per item: [v1, v2]]}
function observe(evalJs, n, only, flags) {
  const env = makeEnv();
  // flags: also observe the update hints (patch flag, dynamic-prop list, `_` of slot objects)
  const ctx = { names: env.names, flags: !!flags };
  return withModule(evalJs, env, (out, rec, loadError) => {
    if (loadError) return { load: errStr(loadError), loadName: loadError.name, values: [] };
    const values = [];
    for (let i = 0; i < n; i++) {
      if (only !== undefined && i !== only) { values.push(null); continue; }
      const rounds = [];
      for (let round = 0; round < 2; round++) {
        try { rounds.push(canonValue(out['k' + i](), ctx, [])); } catch (e) { rounds.push({ throws: e.name, msg: String(e && e.message).slice(0, 80) }); }
      }
      if (typeof out['fire' + i] === 'function') {
        try { rounds.push({ fired: canonValue(out['fire' + i]('NEWEVENT'), ctx, []) }); } catch (e) { rounds.push({ throws: e.name }); }
      }
      values.push(rounds);
    }
    return { values };
  });
}

module.exports = { itemAugmentable, T, TS_PRELUDE, L, K, D, itemSrc, itemKey, itemHasJsx, renderHistory, renderAlone, observe, PRELUDE, makeEnv };
