'use strict';
// Mock Vue 3 runtime: re-implementation of the documented algorithms the emitted code relies on
// (@vue/shared normalizeProp, runtime-core vnode.ts / componentProps.ts / apiSetupHelpers.ts /
// directives.ts, @vue/babel-helper-vue-transform-on). Trusted base, DESIGN Appendix A.

const isArray = Array.isArray;
const isString = (v) => typeof v === 'string';
const isObject = (v) => v !== null && typeof v === 'object';
const isFunction = (v) => typeof v === 'function';
const isOn = (key) => /^on[^a-z]/.test(key);
const hasOwn = (o, k) => Object.prototype.hasOwnProperty.call(o, k);

function normalizeClass(value) {
  let res = '';
  if (isString(value)) {
    res = value;
  } else if (isArray(value)) {
    for (let i = 0; i < value.length; i++) {
      const normalized = normalizeClass(value[i]);
      if (normalized) res += normalized + ' ';
    }
  } else if (isObject(value)) {
    for (const name in value) {
      if (value[name]) res += name + ' ';
    }
  }
  return res.trim();
}

const listDelimiterRE = /;(?![^(]*\))/g;
const propertyDelimiterRE = /:([^]+)/;
const styleCommentRE = /\/\*[^]*?\*\//g;
function parseStringStyle(cssText) {
  const ret = {};
  cssText.replace(styleCommentRE, '').split(listDelimiterRE).forEach((item) => {
    if (item) {
      const tmp = item.split(propertyDelimiterRE);
      tmp.length > 1 && (ret[tmp[0].trim()] = tmp[1].trim());
    }
  });
  return ret;
}

function normalizeStyle(value) {
  if (isArray(value)) {
    const res = {};
    for (let i = 0; i < value.length; i++) {
      const item = value[i];
      const normalized = isString(item) ? parseStringStyle(item) : normalizeStyle(item);
      if (normalized) {
        for (const key in normalized) res[key] = normalized[key];
      }
    }
    return res;
  } else if (isString(value) || isObject(value)) {
    return value;
  }
}

function mergeProps(...args) {
  const ret = {};
  for (let i = 0; i < args.length; i++) {
    const toMerge = args[i];
    for (const key in toMerge) {
      if (key === 'class') {
        if (ret.class !== toMerge.class) ret.class = normalizeClass([ret.class, toMerge.class]);
      } else if (key === 'style') {
        ret.style = normalizeStyle([ret.style, toMerge.style]);
      } else if (isOn(key)) {
        const existing = ret[key];
        const incoming = toMerge[key];
        if (incoming && existing !== incoming && !(isArray(existing) && existing.includes(incoming))) {
          ret[key] = existing ? [].concat(existing, incoming) : incoming;
        }
      } else if (key !== '') {
        ret[key] = toMerge[key];
      }
    }
  }
  return ret;
}

const Fragment = { __sentinel: 'Fragment' };
const Text = { __sentinel: 'Text' };
const KeepAlive = { __sentinel: 'KeepAlive', __isKeepAlive: true };

const isVNode = (v) => (v ? v.__v_isVNode === true : false);

function transformOn(obj) {
  const result = {};
  Object.keys(obj).forEach((evt) => {
    result[`on${evt[0].toUpperCase()}${evt.slice(1)}`] = obj[evt];
  });
  return result;
}

function mergeDefaults(raw, defaults) {
  const props = isArray(raw)
    ? raw.reduce((normalized, p) => ((normalized[p] = null), normalized), {})
    : raw;
  for (const key in defaults) {
    if (key.startsWith('__skip')) continue;
    let opt = props[key];
    if (opt) {
      if (isArray(opt) || isFunction(opt)) {
        opt = props[key] = { type: opt, default: defaults[key] };
      } else {
        opt.default = defaults[key];
      }
    } else if (opt === null) {
      opt = props[key] = { default: defaults[key] };
    }
    if (opt && defaults[`__skip_${key}`]) opt.skipFactory = true;
  }
  return props;
}

// componentProps.ts resolvePropValue, default branch only (boolean casting is irrelevant for C18)
function resolvePropValue(opt, props, value) {
  if (opt != null && hasOwn(opt, 'default') && value === undefined) {
    const defaultValue = opt.default;
    if (opt.type !== Function && !opt.skipFactory && isFunction(defaultValue)) {
      return defaultValue.call(null, props);
    }
    return defaultValue;
  }
  return value;
}

function getTypeName(ctor) {
  if (ctor === null) return 'null';
  if (typeof ctor === 'function') return ctor.name || '';
  if (typeof ctor === 'object') return (ctor.constructor && ctor.constructor.name) || '';
  return '';
}
const simpleTypes = new Set(['String', 'Number', 'Boolean', 'Function', 'Symbol', 'BigInt']);
function assertType(value, type) {
  if (type === null) return value === null;
  const expectedType = getTypeName(type);
  if (simpleTypes.has(expectedType)) {
    const t = typeof value;
    let valid = t === expectedType.toLowerCase();
    if (!valid && t === 'object') valid = value instanceof type;
    return valid;
  } else if (expectedType === 'Object') {
    return isObject(value);
  } else if (expectedType === 'Array') {
    return isArray(value);
  }
  return value instanceof type;
}
// validateProp: accept iff no type / true, or some listed type asserts
function validateType(value, opt) {
  const type = opt && opt.type;
  if (type == null || type === true) return true;
  const types = isArray(type) ? type : [type];
  for (const t of types) if (assertType(value, t)) return true;
  return false;
}

function makeRuntime(rec) {
  // rec: per-evaluation recorder {vnodes:[], resolved:[], defineCalls:[], pragmaCalls:[]}
  function createVNode(type, props, children, patchFlag, dynamicProps) {
    const call = { nargs: arguments.length };
    if (props) {
      // Vue: guardReactiveProps clones; class & style normalization
      props = Object.assign({}, props);
      let { class: klass, style } = props;
      if (klass && !isString(klass)) props.class = normalizeClass(klass);
      if (isObject(style)) props.style = normalizeStyle(style);
    }
    const vnode = {
      __v_isVNode: true,
      type,
      props: props || null,
      children: children === undefined ? null : children,
      patchFlag,
      dynamicProps,
      dirs: null,
      __call: call,
    };
    rec.vnodes.push(vnode);
    return vnode;
  }
  function createTextVNode(text = ' ', flag = 0) {
    const v = { __v_isVNode: true, type: Text, props: null, children: text, dirs: null, __text: true };
    rec.vnodes.push(v);
    return v;
  }
  function withDirectives(vnode, directives) {
    const bindings = vnode.dirs || (vnode.dirs = []);
    rec.withDirectives = (rec.withDirectives || 0) + 1;
    for (let i = 0; i < directives.length; i++) {
      const d = directives[i];
      let [dir, value, arg, modifiers = {}] = d;
      bindings.push({ dir, value, arg, modifiers, __len: d.length });
    }
    return vnode;
  }
  const resolveComponent = (name) => {
    rec.resolved.push('component:' + name);
    return { __resolvedComponent: name };
  };
  const resolveDirective = (name) => {
    rec.resolved.push('directive:' + name);
    return { __resolvedDirective: name };
  };
  const defineComponent = (...args) => {
    rec.defineCalls.push({ who: 'vue', args });
    return { __defined: args };
  };
  const vue = {
    createVNode,
    createTextVNode,
    Fragment,
    Text,
    KeepAlive,
    isVNode,
    mergeProps,
    normalizeClass,
    normalizeStyle,
    resolveComponent,
    resolveDirective,
    withDirectives,
    vShow: { __sentinel: 'vShow' },
    vModelText: { __sentinel: 'vModelText' },
    vModelCheckbox: { __sentinel: 'vModelCheckbox' },
    vModelRadio: { __sentinel: 'vModelRadio' },
    vModelSelect: { __sentinel: 'vModelSelect' },
    vModelDynamic: { __sentinel: 'vModelDynamic' },
    mergeDefaults,
    defineComponent,
    h: createVNode,
  };
  return vue;
}

module.exports = {
  makeRuntime, Fragment, Text, KeepAlive, isVNode, mergeProps, normalizeClass, normalizeStyle,
  parseStringStyle, transformOn, mergeDefaults, resolvePropValue, assertType, validateType, isOn,
};
