'use strict';
// whitespace alphabet for JSX text / attribute strings: [name, source spelling, decoded]
const SYM = [
  ['a', 'a', 'a'], ['SP', ' ', ' '], ['LF', '\n', '\n'], ['TAB', '\t', '\t'], ['CR', '\r', '\r'],
  ['CRLF', '\r\n', '\r\n'], ['NBSP', '\u00a0', '\u00a0'], ['&nbsp;', '&nbsp;', '\u00a0'],
  ['EM', '\u2003', '\u2003'], ['b', 'b', 'b'], ['&amp;', '&amp;', '&'],
  // characters that need escaping when the text is printed as a string literal
  ['BSL', '\\', '\\'], ['DQ', '"', '"'],
];
// less usual characters (second alphabet, shorter strings): none of them is whitespace for the JSX rule except the
// characters an entity decodes to
const SYM_X = [
  ['a', 'a', 'a'], ['SP', ' ', ' '], ['LF', '\n', '\n'],
  ['FF', '\f', '\f'], ['VT', '\v', '\v'], ['LS', '\u2028', '\u2028'], ['PS', '\u2029', '\u2029'], ['ZWSP', '\u200b', '\u200b'], ['BOM', '\ufeff', '\ufeff'],
  ['ASTRAL', '\u{1f600}', '\u{1f600}'], ['COMB', 'e\u0301', 'e\u0301'], ['&#10;', '&#10;', '\n'], ['&#32;', '&#32;', ' '], ['&#x9;', '&#x9;', '\t'], ['&#x1f600;', '&#x1f600;', '\u{1f600}'], ['&bogus;', '&bogus;', '&bogus;'], ['LT', '&lt;', '<'], ['BRACE', '&#123;', '{'],
];
// attribute strings are delimited by double quotes: everything but DQ
const SYM_ATTR = SYM.filter((x) => x[0] !== 'DQ');
module.exports = { SYM, SYM_ATTR, SYM_X };
