'use strict';
// whitespace alphabet for JSX text / attribute strings: [name, source spelling, decoded]
const SYM = [
  ['a', 'a', 'a'], ['SP', ' ', ' '], ['LF', '\n', '\n'], ['TAB', '\t', '\t'], ['CR', '\r', '\r'],
  ['CRLF', '\r\n', '\r\n'], ['NBSP', '\u00a0', '\u00a0'], ['&nbsp;', '&nbsp;', '\u00a0'],
  ['EM', '\u2003', '\u2003'], ['b', 'b', 'b'], ['&amp;', '&amp;', '&'],
  // characters that need escaping when the text is printed as a string literal
  ['BSL', '\\', '\\'], ['DQ', '"', '"'],
];
// attribute strings are delimited by double quotes: everything but DQ
const SYM_ATTR = SYM.filter((x) => x[0] !== 'DQ');
module.exports = { SYM, SYM_ATTR };
