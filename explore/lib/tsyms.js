'use strict';
// whitespace alphabet for JSX text / attribute strings: [name, source spelling, decoded]
const SYM = [
  ['a', 'a', 'a'], ['SP', ' ', ' '], ['LF', '\n', '\n'], ['TAB', '\t', '\t'], ['CR', '\r', '\r'],
  ['CRLF', '\r\n', '\r\n'], ['NBSP', ' ', ' '], ['&nbsp;', '&nbsp;', ' '],
  ['EM', ' ', ' '], ['b', 'b', 'b'], ['&amp;', '&amp;', '&'],
];
module.exports = { SYM };
