'use strict';
// Pipelined JSONL client for vjdriver. A dead or hung driver is an *observation*
// (attributed to the first unanswered request), not an engine failure.
const { spawn } = require('child_process');
const path = require('path');

const BIN = process.env.VJDRIVER || path.join(__dirname, '..', '..', 'driver', 'target', 'release', 'vjdriver');
const REQ_TIMEOUT_MS = +(process.env.VERIF_REQ_TIMEOUT_MS || 5000);

class Driver {
  constructor() {
    this.proc = null;
    this.buf = '';
    this.queue = []; // in-flight: {req, resolve}
    this.nextId = 1;
    this.spawns = 0;
    this.timer = null;
  }

  _spawn() {
    this.spawns++;
    this.proc = spawn(BIN, [], { stdio: ['pipe', 'pipe', 'ignore'] });
    this.buf = '';
    const proc = this.proc;
    proc.stdout.setEncoding('utf8');
    proc.stdout.on('data', (chunk) => {
      if (proc !== this.proc) return;
      this.buf += chunk;
      let idx;
      while ((idx = this.buf.indexOf('\n')) >= 0) {
        const line = this.buf.slice(0, idx);
        this.buf = this.buf.slice(idx + 1);
        if (!line) continue;
        const head = this.queue.shift();
        if (!head) continue;
        let resp;
        try { resp = JSON.parse(line); } catch (e) { resp = { bad_response: line.slice(0, 200) }; }
        this._arm();
        head.resolve(resp);
      }
    });
    proc.on('exit', (code, signal) => {
      if (proc !== this.proc) return;
      this._onDeath({ code, signal });
    });
    proc.stdin.on('error', () => {});
  }

  _arm() {
    if (this.timer) clearTimeout(this.timer);
    this.timer = null;
    if (this.queue.length) {
      this.timer = setTimeout(() => this._onHang(), REQ_TIMEOUT_MS);
    }
  }

  _onHang() {
    const proc = this.proc;
    this.proc = null;
    try { proc.kill('SIGKILL'); } catch (e) {}
    this._fail({ hang: true, timeout_ms: REQ_TIMEOUT_MS });
  }

  _onDeath(info) {
    this.proc = null;
    this._fail({ died: true, exit: info });
  }

  // first unanswered request gets the blame - after it has been confirmed alone in a fresh process
  // (a loaded machine must not turn into a verdict); the rest are re-sent to a fresh process
  _fail(obs) {
    if (this.timer) clearTimeout(this.timer);
    this.timer = null;
    const pending = this.queue;
    this.queue = [];
    const head = pending.shift();
    if (head) {
      if (this.confirming) head.resolve(Object.assign({ id: head.req.id, diags: [] }, obs));
      else confirmAlone(head.req, obs).then((r) => head.resolve(r));
    }
    for (const p of pending) this._send(p.req, p.resolve);
  }

  _send(req, resolve) {
    if (!this.proc) this._spawn();
    this.queue.push({ req, resolve });
    this.proc.stdin.write(JSON.stringify(req) + '\n');
    if (!this.timer) this._arm();
  }

  request(req) {
    req = Object.assign({}, req, { id: this.nextId++ });
    return new Promise((resolve) => this._send(req, resolve));
  }

  requestAll(reqs) {
    return Promise.all(reqs.map((r) => this.request(r)));
  }

  close() {
    if (this.timer) clearTimeout(this.timer);
    if (this.proc) {
      const p = this.proc;
      this.proc = null;
      try { p.stdin.end(); } catch (e) {}
      // VERIF_DRIVER_GRACEFUL: let the driver leave on end-of-input (needed when it has to write a coverage profile)
      if (!process.env.VERIF_DRIVER_GRACEFUL) try { p.kill(); } catch (e) {}
    }
  }
}

// re-run one request alone, in its own process, with a 4x longer cap
function confirmAlone(req, firstObs) {
  return new Promise((resolve) => {
    const proc = spawn(BIN, [], { stdio: ['pipe', 'pipe', 'ignore'] });
    let buf = '';
    let done = false;
    const finish = (r) => { if (done) return; done = true; clearTimeout(t); try { proc.kill('SIGKILL'); } catch (e) {} resolve(r); };
    const t = setTimeout(() => finish(Object.assign({ id: req.id, diags: [], confirmed: true }, { hang: true, timeout_ms: REQ_TIMEOUT_MS * 4 })), REQ_TIMEOUT_MS * 4);
    proc.stdout.setEncoding('utf8');
    proc.stdout.on('data', (c) => {
      buf += c;
      const i = buf.indexOf('\n');
      if (i >= 0) { let r; try { r = JSON.parse(buf.slice(0, i)); } catch (e) { r = { bad_response: buf.slice(0, 200) }; } r.retried_alone = firstObs; finish(r); }
    });
    proc.on('exit', (code, signal) => finish(Object.assign({ id: req.id, diags: [], confirmed: true }, { died: true, exit: { code, signal } })));
    proc.stdin.on('error', () => {});
    proc.stdin.write(JSON.stringify(req) + '\n');
  });
}

module.exports = { Driver, BIN };
