'use strict';
// Explorer E: one JSX expression inside a fixed harness module (DESIGN §2.4, Appendix B).
// The generator works on abstract descriptors; every alphabet entry carries its source spelling
// *and* its meaning for the reference models, so no reference model ever parses anything.
const { Names } = require('./canon');
const { cleanJsxText } = require('../ref/jsxtext');

// ---------------------------------------------------------------- environment (fresh per evaluation)
function makeEnv(variant = 0) {
  const names = new Names();
  const fn = (name, ret) => names.reg(function () { return ret; }, name);
  const comp = (name) => names.reg({ __component: name }, name);
  const bound = {
    Comp: comp('Comp'), B: comp('B'),
    ns: { Comp: comp('ns.Comp'), b: { c: comp('ns.b.c') }, div: comp('ns.div'), input: comp('ns.input'), fooPanel: comp('ns.fooPanel') },
    h1: fn('h1'), h2: fn('h2'), h3: fn('h3'), h4: fn('h4'),
    c1: 'c1cls', st1: { fontSize: '1px' },
    o: { p: 'op' + variant, q: { r: 'oqr' } },
    x: 'xval' + variant, y: 'yval' + variant, xs: ['xs0', 'xs1' + variant], c: true,
    k1: 'k1', r1: names.reg({ __ref: 'r1' }, 'r1'),
    arr: ['arr0'], dyn: 'dynArg',
    t: 'ty' + variant,
  };
  bound.s1 = { id: 's1id', class: 's1c', onClick: fn('hs1') };
  bound.s2 = { class: { s2c: true }, style: { color: 'red' }, onClick: fn('hs2'), title: 't2' };
  const gres = { id: 'gid', class: 'gc', onClick: fn('hg') };
  bound.f = names.reg(function f() { return 'fres' + variant; }, 'f');
  bound.g = names.reg(function g() { return gres; }, 'g');
  // stub for a configured pragma (`hh`): the same observable record as createVNode (class/style normalised like Vue does)
  const V = require('./vue');
  const hh = (type, props, children) => { if (props) { props = Object.assign({}, props); if (props.class && typeof props.class !== 'string') props.class = V.normalizeClass(props.class); if (props.style && typeof props.style === 'object') props.style = V.normalizeStyle(props.style); } return { __v_isVNode: true, type, props: props || null, children: children === undefined ? null : children, dirs: null }; };
  const globals = { u: 'uval' + variant, hu: fn('hu'), su: { id: 'suid' }, hh };
  const modules = { lib: { Imp: comp('Imp'), Fragment: comp('lib.Fragment') } };
  return { bound, globals, names, variant, gres, mv0: 'mv0', modules };
}

// ---------------------------------------------------------------- attribute alphabet
const P = (key, value) => (env) => ({ kind: 'prop', key, value: value(env) });
const S = (obj) => (env) => ({ kind: 'spread', obj: obj(env) });
const ON = (key, obj) => (env, opts) => (opts.transformOn ? { kind: 'on', obj: obj(env) } : { kind: 'prop', key, value: obj(env) });

// flag kinds (C13): 'static' | 'const' | 'dynamic'; name class decides the covering bit
const ATTRS = {
  id:       { src: 'id="a"', m: P('id', () => 'a'), fk: 'static' },
  idws:     { src: 'title=" a  b "', m: P('title', () => cleanJsxText(' a  b ')), fk: 'static' },
  bool:     { src: 'disabled', m: P('disabled', () => true), fk: 'static' },
  bident:   { src: 'a={x}', m: P('a', (e) => e.bound.x), fk: 'dynamic' },
  uident:   { src: 'b={u}', m: P('b', (e) => e.globals.u), fk: 'dynamic' },
  member:   { src: 'c={o.p}', m: P('c', (e) => e.bound.o.p), fk: 'dynamic' },
  call:     { src: 'd={f()}', m: P('d', (e) => 'fres' + e.variant), fk: 'dynamic' },
  num:      { src: 'e={1}', m: P('e', () => 1), fk: 'const' },
  tpl:      { src: 'e2={`t${x}`}', m: P('e2', (e) => 't' + e.bound.x), fk: 'dynamic' },
  arrow:    { src: 'fn={() => 1}', m: P('fn', () => function generated() {}), fk: 'dynamic' },
  objlit:   { src: 'ob={{ a: 1 }}', m: P('ob', () => ({ a: 1 })), fk: 'const' },
  arrlit:   { src: 'ar={[1, x]}', m: P('ar', (e) => [1, e.bound.x]), fk: 'dynamic' },
  cond:     { src: 'cd={c ? 1 : 2}', m: P('cd', () => 1), fk: 'dynamic' },
  undef:    { src: 'un={undefined}', m: P('un', () => undefined), fk: 'const' },
  nul:      { src: 'nl={null}', m: P('nl', () => null), fk: 'const' },
  strexpr:  { src: 'se={"s"}', m: P('se', () => 's'), fk: 'const' },
  jsxval:   { src: 'jv={<b/>}', m: P('jv', () => ({ __expectVNode: { type: 'tag:b', props: null, children: null } })), fk: 'dynamic' },
  jsxBare:  { src: 'jb=<b/>', m: P('jb', () => ({ __expectVNode: { type: 'tag:b', props: null, children: null } })), fk: 'dynamic' },
  xlink:    { src: 'xlink:href="#a"', m: P('xlink:href', () => '#a'), fk: 'static' },
  xlinkD:   { src: 'xlink:title={x}', m: P('xlink:title', (e) => e.bound.x), fk: 'dynamic' },
  data:     { src: 'data-x="1"', m: P('data-x', () => '1'), fk: 'static' },
  clsS:     { src: 'class="a"', m: P('class', () => 'a'), fk: 'static' },
  clsD:     { src: 'class={c1}', m: P('class', (e) => e.bound.c1), fk: 'dynamic' },
  clsA:     { src: 'class={["b", { c: true }]}', m: P('class', () => ['b', { c: true }]), fk: 'const' },
  styS:     { src: 'style="color: blue"', m: P('style', () => 'color: blue'), fk: 'static' },
  styO:     { src: 'style={st1}', m: P('style', (e) => e.bound.st1), fk: 'dynamic' },
  onClick1: { src: 'onClick={h1}', m: P('onClick', (e) => e.bound.h1), fk: 'dynamic' },
  onClick2: { src: 'onClick={h2}', m: P('onClick', (e) => e.bound.h2), fk: 'dynamic' },
  onFoo:    { src: 'onFoo={h1}', m: P('onFoo', (e) => e.bound.h1), fk: 'dynamic' },
  onUpd:    { src: 'onUpdate:modelValue={h2}', m: P('onUpdate:modelValue', (e) => e.bound.h2), fk: 'dynamic' },
  key:      { src: 'key={k1}', m: P('key', (e) => e.bound.k1), fk: 'dynamic' },
  ref:      { src: 'ref={r1}', m: P('ref', (e) => e.bound.r1), fk: 'dynamic' },
  sp1:      { src: '{...s1}', m: S((e) => e.bound.s1), fk: 'spread' },
  sp2:      { src: '{...s2}', m: S((e) => e.bound.s2), fk: 'spread' },
  spObj:    { src: "{...{ id: 'z', class: 'q' }}", m: S(() => ({ id: 'z', class: 'q' })), fk: 'spread' },
  spCall:   { src: '{...g()}', m: S((e) => e.gres), fk: 'spread' },
  on:       { src: 'on={{ click: h3 }}', m: ON('on', (e) => ({ click: e.bound.h3 })), fk: 'on' },
  nativeOn: { src: 'nativeOn={{ foo: h4 }}', m: ON('nativeOn', (e) => ({ foo: e.bound.h4 })), fk: 'on' },
};
for (const k of Object.keys(ATTRS)) ATTRS[k].k = k;

// one representative per syntactic category of value expression and every name kind
const CORE_ATTRS = ['id', 'idws', 'bool', 'bident', 'uident', 'member', 'call', 'objlit', 'arrlit', 'jsxval', 'xlink', 'clsS', 'clsD', 'clsA', 'styS', 'styO', 'onClick1', 'onClick2', 'onUpd', 'key', 'ref', 'sp1', 'sp2', 'spObj', 'spCall', 'on'];
const ALL_ATTRS = Object.keys(ATTRS);
const MERGEABLE = new Set(['class', 'style', 'onClick']);

// ---------------------------------------------------------------- hosts
// kind: 'element' (children = array) | 'component' (children = slots) ; type(env, rt) = expected vnode type (canonical)
const HOSTS = {
  div:       { open: 'div', kind: 'element', type: () => 'tag:div' },
  input:     { open: 'input', kind: 'element', type: () => 'tag:input' },
  svg:       { open: 'circle', kind: 'element', type: () => 'tag:circle' },
  foo:       { open: 'foo', kind: 'component', type: () => 'resolved:foo' },
  iicon:     { open: 'i-icon', kind: 'component', type: () => 'resolved:i-icon' },
  iiconPat:  { open: 'i-icon', kind: 'element', pattern: true, type: () => 'tag:i-icon' },
  // `I-icon` matches `^i-` only case-insensitively: with pattern list 3 it stays a component
  IiconNoLeak: { open: 'I-icon', kind: 'component', pattern: 3, type: () => 'resolved:I-icon' },
  iiconPat3: { open: 'i-icon', kind: 'element', pattern: 3, type: () => 'tag:i-icon' },
  // a capitalised tag that a pattern matches is a custom element like any other
  IonCardPat: { open: 'IonCard', kind: 'element', pattern: 4, type: () => 'tag:IonCard' },
  iiconPat2: { open: 'i-icon', kind: 'element', pattern: 2, type: () => 'tag:i-icon' },
  Comp:      { open: 'Comp', kind: 'component', type: () => 'comp:Comp' },
  Imported:  { open: 'Imp', kind: 'component', type: () => 'comp:Imp', imports: "import { Imp } from 'lib';" },
  Unbound:   { open: 'Unbound', kind: 'component', type: () => 'resolved:Unbound' },
  member:    { open: 'ns.Comp', kind: 'component', type: () => 'comp:ns.Comp' },
  member3:   { open: 'ns.b.c', kind: 'component', type: () => 'comp:ns.b.c' },
  // a member tag is a component whatever its last segment is called
  memberNative: { open: 'ns.div', kind: 'component', type: () => 'comp:ns.div' },
  memberFoo:    { open: 'ns.fooPanel', kind: 'component', type: () => 'comp:ns.fooPanel' },
  memberInput:  { open: 'ns.input', kind: 'component', type: () => 'comp:ns.input' },
  frag:      { open: '', kind: 'element', fragment: true, type: () => 'Fragment' },
  Fragment:  { open: 'Fragment', kind: 'element', type: () => 'Fragment' },
  FragmentI: { open: 'Fragment', kind: 'element', type: () => 'Fragment', imports: "import { Fragment } from 'vue';" },
  FragmentAlias2: { open: 'Fq', kind: 'element', type: () => 'Fragment', imports: "import { Fragment as Fq } from 'vue';\nimport { ref as unusedRef } from 'vue';" },
  // the alias is one of several specifiers of the import (after / before other special names)
  FragmentAfterDc: { open: 'Fd', kind: 'element', type: () => 'Fragment', imports: "import { defineComponent, KeepAlive as Ka, Fragment as Fd, h as unusedH } from 'vue';" },
  FragmentTwoImports: { open: 'Ft', kind: 'element', type: () => 'Fragment', imports: "import { defineComponent } from 'vue';\nimport { ref as unusedRef2 } from 'vue';\nimport { Fragment as Ft } from 'vue';" },
  // an export called Fragment of another module is just a component
  ForeignFragment: { open: 'Fg', kind: 'component', type: () => 'comp:lib.Fragment', imports: "import { Fragment as Fg } from 'lib';" },
  FragmentStr: { open: 'Fs', kind: 'element', type: () => 'Fragment', imports: "import { \"Fragment\" as Fs } from 'vue';" },
  KeepAlive: { open: 'KeepAlive', kind: 'element', type: () => 'KeepAlive', imports: "import { KeepAlive } from 'vue';" },
  KeepAliveU:{ open: 'KeepAlive', kind: 'element', type: () => 'resolved:KeepAlive' },
};
for (const k of Object.keys(HOSTS)) HOSTS[k].k = k;

// ---------------------------------------------------------------- children alphabet (non-component hosts, C02)
const T = (text) => ({ src: text, text });
const TX = (text) => ({ __expectVNode: { text } });
const CHILDREN = {
  ta:    Object.assign(T('a'), { m: () => [TX('a')] }),
  tsp:   Object.assign(T(' a b '), { m: () => [TX(' a b ')] }),
  tml:   Object.assign(T('\n    a\n    b  \n  '), { m: () => [TX(cleanJsxText('\n    a\n    b  \n  '))] }),
  tws:   Object.assign(T('  '), { m: () => [TX('  ')] }),
  tnl:   Object.assign(T('\n   '), { m: () => [] }),
  bx:    { src: '{x}', m: (e) => [e.bound.x] },
  ux:    { src: '{u}', m: (e) => [e.globals.u] },
  call:  { src: '{f()}', m: (e) => ['fres' + e.variant] },
  empty: { src: '{}', m: () => [] },
  cmt:   { src: '{/* c */}', m: () => [] },
  spread:{ src: '{...xs}', m: (e) => e.bound.xs.slice() },
  el:    { src: '<b/>', m: () => [{ __expectVNode: { type: 'tag:b', props: null, children: null } }] },
  frag:  { src: '<></>', m: () => [{ __expectVNode: { type: 'Fragment', props: null, children: null } }] },
  compB: { src: '<B/>', m: () => [{ __expectVNode: { type: 'comp:B', props: null, children: null } }] },
  str:   { src: '{"s"}', m: () => ['s'] },
  num:   { src: '{1}', m: () => [1] },
  nul:   { src: '{null}', m: () => [null] },
  spreadEls: { src: '{...[<b/>, x]}', m: (e) => [{ __expectVNode: { type: 'tag:b', props: null, children: null } }, e.bound.x] },
  spreadMap: { src: '{...xs.map((q) => <b>{q}</b>)}', m: (e) => e.bound.xs.map((q) => ({ __expectVNode: { type: 'tag:b', props: null, children: [q] } })) },
  cond:  { src: '{c && <i/>}', m: () => [{ __expectVNode: { type: 'tag:i', props: null, children: null } }] },
};
for (const k of Object.keys(CHILDREN)) CHILDREN[k].k = k;
const isText = (k) => CHILDREN[k].text !== undefined;

// ---------------------------------------------------------------- rendering
function optsJson(o) {
  const j = {};
  for (const k of ['mergeProps', 'transformOn', 'optimize', 'enableObjectSlots', 'resolveType']) if (o[k] !== undefined) j[k] = o[k];
  // pattern: true = one matching pattern; 2 = only the second pattern of the list matches (and only through regex syntax)
  // 3 = a pattern with an inline flag before one without (the flag must not leak); 4 = a pattern for capitalised names
  if (o.pattern) j.customElementPatterns = o.pattern === 2 ? ['^zzz$', '-ic[o0]n$'] : o.pattern === 3 ? ['(?i)^zz-', '^i-'] : o.pattern === 4 ? ['^Ion[A-Z]'] : ['^i-'];
  if (o.pragma) j.pragma = o.pragma;
  return JSON.stringify(j);
}

const PRELUDE = 'const { Comp, B, ns, s1, s2, h1, h2, h3, h4, c1, st1, o, x, y, xs, c, k1, r1, arr, dyn, t, f, g } = __env.bound;\nlet mv = __env.mv0;\n__out.read = () => ({ mv, o, arr });\n__out.write = (v) => { mv = v; };\n';

function renderJsx(host, attrSrcs, childSrcs) {
  const h = HOSTS[host];
  const attrs = attrSrcs.length ? ' ' + attrSrcs.join(' ') : '';
  if (h.fragment) return `<>${childSrcs.join('')}</>`;
  if (!childSrcs.length) return `<${h.open}${attrs} />`;
  return `<${h.open}${attrs}>${childSrcs.join('')}</${h.open}>`;
}

function renderModule(host, jsx, ctx = 'arrow') {
  const h = HOSTS[host];
  let body;
  switch (ctx) {
    case 'arrow': body = `__out.mk = () => (${jsx});`; break;
    case 'stmt': body = `__out.v = ${jsx};\n__out.mk = () => __out.v;`; break;
    case 'fn': body = `function mk() { return ${jsx}; }\n__out.mk = mk;`; break;
    case 'method': body = `const holder = { Comp, mk() { return ${jsx}; } };\n__out.mk = () => holder.mk();`; break;
    default: throw new Error('ctx ' + ctx);
  }
  return (h.imports ? h.imports + '\n' : '') + PRELUDE + body + '\n';
}

// ---------------------------------------------------------------- semantically transparent wrappers (.tsx)
// Parentheses and TypeScript's type-only wrappers do not change what an expression evaluates to; a case rendered with
// a wrapper has the same reference-model answer as the case without it.
const simple = (e) => /^[\w$.]+(\(\))?$/.test(e);
const par = (e) => (simple(e) ? e : `(${e})`);
const WRAPS = {
  paren: (e) => `(${e})`,
  nonnull: (e) => `${par(e)}!`,
  as: (e) => `${par(e)} as any`,
  satisfies: (e) => `${par(e)} satisfies any`,
  parenAs: (e) => `(${par(e)} as any)`,
  nnParen: (e) => `(${par(e)}!)`,
};
// wrap the value expression of an attribute source (`name={E}` / `{...E}`); null when there is no expression
function wrapAttr(src, w) {
  let m = /^\{\.\.\.([\s\S]*)\}$/.exec(src);
  if (m) return `{...${WRAPS[w](m[1])}}`;
  m = /^([^={]+)=\{([\s\S]*)\}$/.exec(src);
  if (m) return `${m[1]}={${WRAPS[w](m[2])}}`;
  return null;
}
function wrapChild(src, w) {
  const sp = /^\{\.\.\.([\s\S]+)\}$/.exec(src);
  if (sp) return `{...${WRAPS[w](sp[1])}}`;
  const m = /^\{(?!\.\.\.|\/\*)([\s\S]+)\}$/.exec(src);
  return m ? `{${WRAPS[w](m[1])}}` : null;
}

module.exports = { WRAPS, wrapAttr, wrapChild, makeEnv, ATTRS, CORE_ATTRS, ALL_ATTRS, MERGEABLE, HOSTS, CHILDREN, isText, optsJson, PRELUDE, renderJsx, renderModule, TX };
