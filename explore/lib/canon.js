'use strict';
// Canonical observations (DESIGN Appendix C) and a structural diff that yields a "diff class".
const V = require('./vue');

class Names {
  constructor() { this.m = new Map(); }
  reg(obj, name) { if (obj !== null && (typeof obj === 'object' || typeof obj === 'function')) this.m.set(obj, name); return obj; }
  regAll(o, prefix = '') { for (const k of Object.keys(o)) this.reg(o[k], prefix + k); return o; }
  get(obj) { return this.m.get(obj); }
}

const UNDEF = '«undefined»';

function canonValue(v, ctx, seen) {
  if (v === undefined) return UNDEF;
  if (v === null) return null;
  const t = typeof v;
  if (t === 'number') return Number.isNaN(v) ? '«NaN»' : v;
  if (t === 'string' || t === 'boolean') return v;
  if (t === 'bigint') return 'bigint:' + v.toString();
  if (t === 'symbol') return 'symbol:' + String(v.description);
  if (t === 'object' && v.__expectVNode) return v.__expectVNode; // literal canonical form written by a reference model
  const nm = ctx.names.get(v);
  if (t === 'function') return nm ? 'fn:' + nm : 'fn:generated';
  if (nm && !V.isVNode(v)) return 'obj:' + nm;
  if (v.__sentinel) return 'vue:' + v.__sentinel;
  if (v.__resolvedComponent !== undefined) return 'resolved:' + v.__resolvedComponent;
  if (v.__resolvedDirective !== undefined) return 'resolvedDir:' + v.__resolvedDirective;
  seen = seen || [];
  if (seen.includes(v)) return 'CYCLE';
  seen.push(v);
  let r;
  if (V.isVNode(v)) r = canonVNode(v, ctx, seen);
  else if (Array.isArray(v)) r = v.map((x) => canonValue(x, ctx, seen));
  else {
    r = {};
    for (const k of Object.keys(v).sort()) r[k] = canonValue(v[k], ctx, seen);
  }
  seen.pop();
  return r;
}

function canonType(t, ctx) {
  if (typeof t === 'string') return 'tag:' + t;
  if (t === V.Fragment) return 'Fragment';
  if (t === V.KeepAlive) return 'KeepAlive';
  if (t && t.__resolvedComponent !== undefined) return 'resolved:' + t.__resolvedComponent;
  const nm = t !== null && (typeof t === 'object' || typeof t === 'function') ? ctx.names.get(t) : undefined;
  if (nm) return 'comp:' + nm;
  return { odd: canonValue(t, ctx, []) };
}

function canonProps(p, ctx, seen) {
  if (p === null || p === undefined) return null;
  if (typeof p !== 'object') return { odd: canonValue(p, ctx, seen) };
  const r = {};
  for (const k of Object.keys(p).sort()) {
    let val = p[k];
    if (k === 'class') val = V.normalizeClass(val);
    else if (k === 'style') {
      if (typeof val === 'string') val = V.parseStringStyle(val);
      else if (val && typeof val === 'object') val = V.normalizeStyle(val);
    }
    r[k] = canonValue(val, ctx, seen);
  }
  return r;
}

function invokeSlot(fn, ctx, seen) {
  try {
    const res = fn();
    return canonValue(res, ctx, seen);
  } catch (e) {
    return { throws: String(e && e.name) }; // engine messages name variables; only the error class is canonical
  }
}

function canonChildren(c, ctx, seen, isComponentLike) {
  if (c === null || c === undefined) return null;
  if (Array.isArray(c)) return c.map((x) => canonValue(x, ctx, seen));
  if (typeof c === 'function') {
    const nm = ctx.names.get(c);
    return { fnChild: nm ? 'fn:' + nm : invokeSlot(c, ctx, seen) };
  }
  if (typeof c === 'object' && !V.isVNode(c)) {
    const nm = ctx.names.get(c);
    const slots = {};
    for (const k of Object.keys(c).sort()) {
      if (k === '_') { if (ctx.flags) slots._ = c[k]; continue; }
      const f = c[k];
      if (typeof f === 'function') {
        const fnm = ctx.names.get(f);
        slots[k] = fnm ? 'fn:' + fnm : (ctx.invokeSlots === false ? 'fn:generated' : { ret: invokeSlot(f, ctx, seen) });
      } else slots[k] = canonValue(f, ctx, seen);
    }
    return nm ? { slots, passthrough: nm } : { slots };
  }
  return canonValue(c, ctx, seen);
}

function canonVNode(v, ctx, seen) {
  seen = seen || [v];
  if (v.__text) return { text: v.children };
  const r = {
    type: canonType(v.type, ctx),
    props: canonProps(v.props, ctx, seen),
    children: canonChildren(v.children, ctx, seen),
  };
  if (v.dirs) {
    r.dirs = v.dirs.map((d) => ({
      dir: canonValue(d.dir, ctx, seen),
      value: canonValue(d.value, ctx, seen),
      arg: canonValue(d.arg, ctx, seen),
      modifiers: canonValue(d.modifiers, ctx, seen),
    }));
  }
  if (ctx.flags) {
    r.patchFlag = v.patchFlag === undefined ? UNDEF : v.patchFlag;
    r.dynamicProps = v.dynamicProps === undefined ? UNDEF : canonValue(v.dynamicProps, ctx, seen);
  }
  return r;
}

function canon(v, ctx) {
  return canonValue(v, Object.assign({ names: new Names(), flags: false }, ctx), []);
}

// structural diff: first difference in a deterministic walk
function diff(e, o, path = '') {
  if (e === o) return null;
  const te = e === null ? 'null' : Array.isArray(e) ? 'array' : typeof e;
  const to = o === null ? 'null' : Array.isArray(o) ? 'array' : typeof o;
  if (te !== to) return { path, kind: 'different', e, o };
  if (te === 'array') {
    const n = Math.min(e.length, o.length);
    for (let i = 0; i < n; i++) {
      const d = diff(e[i], o[i], `${path}[${i}]`);
      if (d) return d;
    }
    if (e.length > o.length) return { path: `${path}[${n}]`, kind: 'missing', e: e[n], o: undefined };
    if (o.length > e.length) return { path: `${path}[${n}]`, kind: 'extra', e: undefined, o: o[n] };
    return null;
  }
  if (te === 'object') {
    const ke = Object.keys(e).sort();
    const ko = Object.keys(o).sort();
    for (const k of ke) {
      if (!(k in o)) return { path: `${path}.${k}`, kind: 'missing', e: e[k], o: undefined };
    }
    for (const k of ko) {
      if (!(k in e)) return { path: `${path}.${k}`, kind: 'extra', e: undefined, o: o[k] };
    }
    for (const k of ke) {
      const d = diff(e[k], o[k], `${path}.${k}`);
      if (d) return d;
    }
    return null;
  }
  return { path, kind: 'different', e, o };
}

function diffClass(d) {
  if (!d) return null;
  return d.path.replace(/\[\d+\]/g, '[*]') + ':' + d.kind;
}

function stable(v) { return JSON.stringify(v); }

// FNV-1a → 2×32-bit hex; used only to count distinct observations
function hash(s) {
  let h1 = 0x811c9dc5, h2 = 0x01000193 ^ 0x5bd1e995;
  for (let i = 0; i < s.length; i++) {
    const c = s.charCodeAt(i);
    h1 = Math.imul(h1 ^ c, 0x01000193);
    h2 = Math.imul(h2 ^ c, 0x5bd1e995) ^ (h2 >>> 13);
  }
  return ((h1 >>> 0).toString(16) + (h2 >>> 0).toString(16));
}

module.exports = { Names, canon, canonValue, canonVNode, diff, diffClass, stable, hash, UNDEF };
