'use strict';
// Explorer R: structural operators wrapped around an abstract prop map / type term / event set.
// The abstract descriptor *is* the reference model; the renderer only spells it in TypeScript.
const { withModule, errStr } = require('./evalmod');

// ---------------------------------------------------------------- prop maps
// entry: {name, kind: 'prop'|'method'|'getter', optional, type}
const ENTRY_MENU = [
  { name: 'a', kind: 'prop', optional: false, type: 'string' },
  { name: 'a', kind: 'prop', optional: true, type: 'string' },
  { name: 'b', kind: 'prop', optional: true, type: 'number' },
  { name: 'b', kind: 'prop', optional: false, type: 'boolean' },
  { name: 'c-d', kind: 'prop', optional: false, type: 'string' },
  { name: 'c-d', kind: 'prop', optional: true, type: 'number' },
  { name: 'm', kind: 'method', optional: false },
  { name: 'm', kind: 'method', optional: true },
  { name: 'g', kind: 'getter', optional: false, type: 'string' },
  // keys that are not identifiers or strings in the source: numeric, computed string literal; a member without annotation
  { name: '1', key: '1', kind: 'prop', optional: false, type: 'string', special: true },
  { name: 'ck', key: "['ck']", kind: 'prop', optional: true, type: 'number', special: true },
  { name: 'tk-x', key: '[`tk-x`]', kind: 'prop', optional: false, type: 'string', special: true },
  { name: 'na', kind: 'prop', optional: true, type: null },
  // names that collide with Object.prototype members, reserved words, non-ASCII identifiers (`__proto__` is left out:
  // in an object literal it is not a property at all)
  { name: 'constructor', kind: 'prop', optional: false, type: 'string' },
  { name: 'default', kind: 'prop', optional: true, type: 'number' },
  { name: 'été', kind: 'method', optional: false },
];
const keySrc = (n) => (/^[A-Za-z_$][\w$]*$/.test(n) ? n : `'${n}'`);
function memberSrc(e) {
  const k = e.key || keySrc(e.name);
  if (e.kind === 'method') return `${k}${e.optional ? '?' : ''}(): void`;
  if (e.kind === 'getter') return `get ${k}(): ${e.type}`;
  return `${k}${e.optional ? '?' : ''}${e.type === null ? '' : ': ' + e.type}`;
}
const members = (m) => m.map(memberSrc).join('; ');
const lit = (m) => `{ ${members(m)} }`;

function* maps(maxSize) {
  const n = ENTRY_MENU.length;
  const rec = function* (start, acc) {
    yield acc.slice();
    if (acc.length === maxSize) return;
    for (let i = start; i < n; i++) {
      if (acc.some((e) => e.name === ENTRY_MENU[i].name)) continue;
      acc.push(ENTRY_MENU[i]);
      yield* rec(i + 1, acc);
      acc.pop();
    }
  };
  yield* rec(0, []);
}

// ---- encoders: (map, ctx) -> {type: string, decls: [string], map: resulting expected map}
// ctx.fresh() yields unique type names; ctx.inner(map) encodes a sub-map with the remaining depth budget
const split = (m) => [m.slice(0, Math.ceil(m.length / 2)), m.slice(Math.ceil(m.length / 2))];
const EXTRA = { name: 'zz', kind: 'prop', optional: false, type: 'number' };
const allReq = (e) => (e.kind === 'getter' ? e : Object.assign({}, e, { optional: false, key: e.key && e.key.replace(/\?$/, '') }));
const ENC = {
  inline: (m) => ({ type: lit(m), decls: [], map: m }),
  alias: (m, c) => { const n = c.fresh('A'); const i = c.inner(m); return { type: n, decls: i.decls.concat([`type ${n} = ${i.type};`]), map: i.map }; },
  aliasChain: (m, c) => { const n = c.fresh('A'), n2 = c.fresh('B'); const i = c.inner(m); return { type: n2, decls: i.decls.concat([`type ${n} = ${i.type};`, `type ${n2} = ${n};`]), map: i.map }; },
  iface: (m, c) => { const n = c.fresh('I'); return { type: n, decls: [`interface ${n} { ${members(m)} }`], map: m }; },
  ifaceMerge: (m, c) => { const n = c.fresh('I'); const [x, y] = split(m); return { type: n, decls: [`interface ${n} { ${members(x)} }`, `interface ${n} { ${members(y)} }`], map: m }; },
  ext: (m, c) => { const n = c.fresh('I'); const [x, y] = split(m); const p = c.inner(x, ['iface', 'ifaceMerge', 'ext', 'alias']); return { type: n, decls: p.decls.concat([`interface ${n} extends ${p.type} { ${members(y)} }`]), map: p.map.concat(y), nameOnly: true }; },
  extMerge: (m, c) => { const n = c.fresh('I'), p1 = c.fresh('P'); const [x, y] = split(m); const [y1, y2] = split(y); return { type: n, decls: [`interface ${p1} { ${members(x)} }`, `interface ${n} extends ${p1} { ${members(y1)} }`, `interface ${n} { ${members(y2)} }`], map: m }; },
  mergeExt: (m, c) => { const n = c.fresh('I'), p1 = c.fresh('P'); const [x, y] = split(m); const [y1, y2] = split(y); return { type: n, decls: [`interface ${p1} { ${members(x)} }`, `interface ${n} { ${members(y1)} }`, `interface ${n} extends ${p1} { ${members(y2)} }`], map: m }; },
  ext2: (m, c) => { const n = c.fresh('I'), p1 = c.fresh('P'), p2 = c.fresh('Q'); const [x, y] = split(m); return { type: n, decls: [`interface ${p1} { ${members(x)} }`, `interface ${p2} { ${members(y)} }`, `interface ${n} extends ${p1}, ${p2} {}`], map: m }; },
  inter: (m, c) => { const [x, y] = split(m); const a = c.inner(x), b = c.inner(y); return { type: `${a.type} & ${b.type}`, decls: a.decls.concat(b.decls), map: a.map.concat(b.map) }; },
  // only one side of the intersection goes through the inner operator: `{x} & Op<{y}>` / `Op<{x}> & {y}`
  interLeftPlain: (m, c) => { const [x, y] = split(m); const b = c.inner(y); return { type: `${lit(x)} & ${b.type}`, decls: b.decls, map: x.concat(b.map) }; },
  interRightPlain: (m, c) => { const [x, y] = split(m); const a = c.inner(x); return { type: `${a.type} & ${lit(y)}`, decls: a.decls, map: a.map.concat(y) }; },
  paren: (m, c) => { const i = c.inner(m); return { type: `(${i.type})`, decls: i.decls, map: i.map }; },
  exported: (m, c) => { const n = c.fresh('E'); return { type: n, decls: [`export interface ${n} { ${members(m)} }`], map: m }; },
  exportedAlias: (m, c) => { const n = c.fresh('E'); const i = c.inner(m); return { type: n, decls: i.decls.concat([`export type ${n} = ${i.type};`]), map: i.map }; },
  partial: (m, c) => { const i = c.inner(m); return { type: `Partial<${i.type}>`, decls: i.decls, map: i.map.map((e) => (e.kind === 'getter' ? e : Object.assign({}, e, { optional: true }))) }; },
  required: (m, c) => { const i = c.inner(m); return { type: `Required<${i.type}>`, decls: i.decls, map: i.map.map((e) => (e.kind === 'getter' ? e : Object.assign({}, e, { optional: false }))) }; },
  pick: (m, c) => { if (!m.length || m.some((e) => e.special)) return null; const i = c.inner(m.concat([EXTRA])); return { type: `Pick<${i.type}, ${m.map((e) => `'${e.name}'`).join(' | ')}>`, decls: i.decls, map: i.map.filter((e) => e.name !== 'zz') }; },
  pickAlias: (m, c) => { if (!m.length || m.some((e) => e.special)) return null; const k = c.fresh('K'); const i = c.inner(m.concat([EXTRA])); return { type: `Pick<${i.type}, ${k}>`, decls: i.decls.concat([`type ${k} = ${m.map((e) => `'${e.name}'`).join(' | ')};`]), map: i.map.filter((e) => e.name !== 'zz') }; },
  omit: (m, c) => { const i = c.inner(m.concat([EXTRA])); return { type: `Omit<${i.type}, 'zz'>`, decls: i.decls, map: i.map.filter((e) => e.name !== 'zz') }; },
  index: (m, c) => { const n = c.fresh('O'); const i = c.inner(m); return { type: `${n}['k']`, decls: i.decls.concat([`type ${n} = { k: ${i.type}; other: string };`]), map: i.map }; },
  index2: (m, c) => { const n = c.fresh('O'); const i = c.inner(m); return { type: `${n}['k']['j']`, decls: i.decls.concat([`type ${n} = { k: { j: ${i.type}; k: { wrong: 1 } }; j: { alsoWrong: 2 } };`]), map: i.map }; },
  index2Iface: (m, c) => { const n = c.fresh('O'), p = c.fresh('P'); const i = c.inner(m); return { type: `${n}['row']['cell']`, decls: i.decls.concat([`interface ${p} { cell: ${i.type}; row: { no: 1 } }`, `interface ${n} { row: ${p}; cell: { no: 2 } }`]), map: i.map }; },
  // a union whose members declare the same keys; a key is optional when one member says so, whichever comes first
  unionOptFirst: (m, c) => { const i = c.inner(m); return { type: `${i.type} | ${lit(i.map.map(allReq))}`, decls: i.decls, map: i.map }; },
  unionOptLast: (m, c) => { const i = c.inner(m); return { type: `${lit(i.map.map(allReq))} | ${i.type}`, decls: i.decls, map: i.map }; },
  unionOptMiddle: (m, c) => { const n = c.fresh('U'); const i = c.inner(m); return { type: n, decls: i.decls.concat([`type ${n} = ${lit(i.map.map(allReq))} | ${i.type} | ${lit(i.map.map(allReq))};`]), map: i.map }; },
  // the selected member is itself declared as another string-keyed access of the same type (two accesses of one type nested in one resolution, no cycle)
  indexSelf: (m, c) => { const n = c.fresh('O'); const i = c.inner(m); return { type: `${n}['a']`, decls: i.decls.concat([`type ${n} = { a: ${n}['b']; b: ${i.type}; other: string };`]), map: i.map }; },
  indexSelfIface: (m, c) => { const n = c.fresh('O'); const i = c.inner(m); return { type: `${n}["a"]`, decls: i.decls.concat([`interface ${n} { a: ${n}["b"]; b: ${n}['c']; c: ${i.type} }`]), map: i.map }; },
  // the selected member is inherited: declared by a parent (one and two levels up) of the interface that is indexed
  indexInherited: (m, c) => { const n = c.fresh('O'), b = c.fresh('B'); const i = c.inner(m); return { type: `${n}['k']`, decls: i.decls.concat([`interface ${b} { k: ${i.type}; other: string }`, `interface ${n} extends ${b} { own: number }`]), map: i.map }; },
  indexInherited2: (m, c) => { const n = c.fresh('O'), b = c.fresh('B'), r = c.fresh('R'); const i = c.inner(m); return { type: `${n}['k']`, decls: i.decls.concat([`interface ${r} { k: ${i.type} }`, `interface ${b} extends ${r} { k2: string }`, `interface ${n} extends ${b} {}`]), map: i.map }; },
  // ... and an own declaration wins over the parent's
  indexOverride: (m, c) => { const n = c.fresh('O'), b = c.fresh('B'); const i = c.inner(m); return { type: `${n}['k']`, decls: i.decls.concat([`interface ${b} { k: { wrong: 1 }; other: string }`, `interface ${n} extends ${b} { k: ${i.type} }`]), map: i.map }; },
  indexIface: (m, c) => { const n = c.fresh('O'); const i = c.inner(m); return { type: `${n}['k']`, decls: i.decls.concat([`interface ${n} { k: ${i.type}; other: string }`]), map: i.map }; },
};
const ENC_KEYS = Object.keys(ENC);

function encode(map, path) {
  // path: list of encoder names, outermost first; innermost default = inline
  let counter = 0;
  const mk = (depth) => ({
    fresh: (p) => `${p}${counter++}`,
    inner: (m, allowed) => {
      let name = path[depth] || 'inline';
      if (allowed && !allowed.includes(name)) name = allowed[0];
      const r = ENC[name](m, mk(depth + 1));
      return r || ENC.inline(m);
    },
  });
  return mk(0).inner(map);
}

// ---------------------------------------------------------------- evaluation
function makeEnv() {
  const sent = (name) => ({ __sentinel_value: name });
  const bound = { d1: sent('d1'), dfn: function dfn() { return 'dfn'; }, mkd: () => sent('mkd'), uo: { inheritAttrs: false }, v: 1 };
  return { bound, globals: {} };
}
const PRELUDE = "import { defineComponent, SetupContext } from 'vue';\nimport type { SlotsType } from 'vue';\nconst { d1, dfn, mkd, uo } = __env.bound;\n";

// runs the module; returns {load, calls: [{who, args}], out}
function run(evalJs, env) {
  return withModule(evalJs, env || makeEnv(), (out, rec, loadError, vue) => {
    if (loadError) return { load: errStr(loadError), calls: [], out };
    return { calls: rec.defineCalls, out };
  });
}

// normalise an emitted runtime `type` to a list of constructor names ('null' for the null value)
function typeList(t) {
  if (t === undefined) return undefined;
  const xs = Array.isArray(t) ? t : [t];
  return xs.map((c) => (c === null ? 'null' : typeof c === 'function' ? c.name : c === true ? 'true' : String(c)));
}

module.exports = { ENTRY_MENU, maps, ENC, ENC_KEYS, encode, lit, members, memberSrc, keySrc, PRELUDE, makeEnv, run, typeList };
