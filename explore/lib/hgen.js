'use strict';
// history generators over the H alphabet (breadth-first: shorter histories first)
const H = require('./hspace');
const { sequences } = require('./spaces');

const ALL = [];
for (const k of Object.keys(H.K)) for (const l of Object.keys(H.L)) ALL.push({ k, l });
for (const d of Object.keys(H.D)) ALL.push({ d });

const FOCUS_L = ['identChild', 'callChild', 'twoCalls', 'vmodel', 'frag', 'fragAlias'];
const FOCUS = ALL.filter((it) => it.d || FOCUS_L.includes(it.l));
const CORE_K = ['stmt', 'fn', 'arrowExpr', 'field', 'defparam', 'loopBare', 'arrowDefparam', 'block'];
const CORE_L = ['identChild', 'callChild', 'frag'];
const CORE_D = ['assignSame', 'fnNoJsx', 'arrowNoJsx', 'arrowBlockNoJsx', 'userSlot', 'userIsSlot', 'importFragmentAlias', 'selfAssign', 'selfAssignFn', 'blockNoJsx', 'tagUnbound', 'tagLocal', 'selfAssignTwice'];
const CORE = ALL.filter((it) => (it.d ? CORE_D.includes(it.d) : CORE_K.includes(it.k) && CORE_L.includes(it.l)));
const MINI = ALL.filter((it) => (it.d ? ['assignSame', 'arrowNoJsx', 'userSlot', 'selfAssign', 'fnNoJsx'].includes(it.d) : ['stmt', 'arrowExpr', 'field', 'defparam', 'loopBare'].includes(it.k) && ['identChild', 'callChild', 'frag'].includes(it.l)));

// items that carry element-level state (used as second components of pairs in option-specific spaces)
const STATE_D = ALL.filter((it) => it.d && ['memberNativeTag', 'nativeChildren', 'typeCheckboxNoDir', 'typeDynNoDir', 'tplChildComp', 'tplChildFrag', 'tplChildEl', 'singleChildEl', 'nestedSingle', 'attrBareJsx', 'dirThenBareJsx', 'selfAssignFnObs', 'onOnly'].includes(it.d));

function onceOk(items) {
  const seen = new Set();
  for (const it of items) if (it.d && H.D[it.d].once) { const g = H.D[it.d].group || it.d; if (seen.has(g)) return false; seen.add(g); }
  return true;
}

function* seqOver(alpha, minLen, maxLen) {
  for (const s of sequences(alpha.length, maxLen, { minLen })) {
    const items = s.map((i) => alpha[i]);
    if (onceOk(items)) yield items;
  }
}

function spaces(tier, mk) {
  const thorough = tier === 'thorough';
  const sp = [
    { name: 'H1:all-items', alpha: ALL, min: 0, max: 1 },
    thorough ? { name: 'H2:all×all', alpha: ALL, min: 2, max: 2 } : { name: 'H2:focus×focus', alpha: FOCUS, min: 2, max: 2 },
    thorough ? { name: 'H3:focus-core', alpha: CORE, min: 3, max: 3 } : { name: 'H3:core', alpha: CORE, min: 3, max: 3 },
  ];
  if (thorough) sp.push({ name: 'H4:mini', alpha: MINI, min: 4, max: 4 });
  return sp.map((s) => ({
    name: s.name,
    bounds: { alphabet_size: s.alpha.length, alphabet: s.alpha.length <= 40 ? s.alpha.map(H.itemKey) : `${s.alpha.length} items = contexts ${Object.keys(H.K).length} × lowerings ${Object.keys(H.L).length} (or the focus/core subset) ∪ distractors`, min_length: s.min, max_length: s.max },
    *gen() { for (const items of seqOver(s.alpha, s.min, s.max)) yield mk(items); },
  }));
}

// ---- canonical-state skeleton (DESIGN §4 C06/C10, §5): breadth-first over histories, each distinct
// (visitor state dump after the last item, set of binding-introducing distractors) is *expanded* once.
// Every successor of every representative is still *checked*; canonicalisation only decides expansion.
const bindSet = (h) => h.filter((it) => it.d && H.D[it.d].once).map((it) => it.d).sort().join(',');
async function skeleton(repDepth, optsJson) {
  const { Driver } = require('./driver');
  const drivers = Array.from({ length: Math.min(12, require('os').cpus().length) }, () => new Driver());
  let frontier = [[]];
  const seen = new Set();
  const reps = [[]];
  const perDepth = [];
  let stateRequests = 0;
  const t0 = Date.now();
  for (let depth = 1; depth <= repDepth; depth++) {
    const cands = [];
    for (const rep of frontier) for (const it of ALL) { const h = rep.concat([it]); if (onceOk(h)) cands.push(h); }
    const resps = await Promise.all(cands.map((h, i) => drivers[i % drivers.length].request({ src: H.renderHistory(h), want: ['state'], opts: optsJson })));
    stateRequests += cands.length;
    const next = [];
    cands.forEach((h, i) => {
      if (typeof resps[i].state !== 'string') return; // crashed / unparsable: checked by the plain spaces, not expanded
      const k = resps[i].state + '|' + bindSet(h);
      if (!seen.has(k)) { seen.add(k); next.push(h); }
    });
    perDepth.push({ depth, candidates: cands.length, new_states: next.length });
    reps.push(...next);
    frontier = next;
  }
  drivers.forEach((d) => d.close());
  return { reps, info: { distinct_visitor_states: seen.size + 1, state_requests: stateRequests, per_depth: perDepth, representatives_expanded: reps.length, seconds: (Date.now() - t0) / 1000 } };
}
function canonicalSpace(prepared, mk) {
  const reps = (prepared && prepared.reps) || [];
  return {
    name: 'HC:canonical-state-search',
    bounds: { note: 'every representative history (one per distinct visitor state × binding set, found breadth-first) extended by every item of the full alphabet', representatives: reps.length, alphabet_size: ALL.length, max_length: reps.reduce((m, r) => Math.max(m, r.length), 0) + 1 },
    *gen() { for (const rep of reps) if (rep.length >= 2) for (const it of ALL) { const h = rep.concat([it]); if (onceOk(h)) yield mk(h); } },
  };
}

function* shrinkItems(items) {
  for (let i = 0; i < items.length; i++) yield items.slice(0, i).concat(items.slice(i + 1));
  // simplify an item: context → stmt, lowering → plain
  for (let i = 0; i < items.length; i++) {
    const it = items[i];
    if (it.d) continue;
    if (it.k !== 'stmt') yield items.slice(0, i).concat([{ k: 'stmt', l: it.l }], items.slice(i + 1));
    if (it.l !== 'plain') yield items.slice(0, i).concat([{ k: it.k, l: 'plain' }], items.slice(i + 1));
  }
}

const key = (items) => items.map(H.itemKey).join(' ; ') || '(empty)';

module.exports = { STATE_D, ALL, FOCUS, CORE, MINI, spaces, shrinkItems, key, onceOk, skeleton, canonicalSpace };
