'use strict';
// history generators over the H alphabet (breadth-first: shorter histories first)
const H = require('./hspace');
const { sequences } = require('./spaces');

const ALL = [];
for (const k of Object.keys(H.K)) for (const l of Object.keys(H.L)) ALL.push({ k, l });
for (const d of Object.keys(H.D)) ALL.push({ d });

const FOCUS_L = ['identChild', 'callChild', 'twoCalls', 'vmodel', 'frag', 'fragAlias'];
const FOCUS = ALL.filter((it) => it.d || FOCUS_L.includes(it.l));
const CORE_K = ['stmt', 'fn', 'arrowExpr', 'field', 'defparam', 'loopBare', 'arrowDefparam', 'block'];
const CORE_L = ['identChild', 'callChild', 'frag'];
const CORE_D = ['assignSame', 'fnNoJsx', 'arrowNoJsx', 'arrowBlockNoJsx', 'userSlot', 'userIsSlot', 'importFragmentAlias', 'selfAssign', 'selfAssignFn', 'blockNoJsx', 'tagUnbound', 'tagLocal', 'selfAssignTwice'];
const CORE = ALL.filter((it) => (it.d ? CORE_D.includes(it.d) : CORE_K.includes(it.k) && CORE_L.includes(it.l)));
const MINI = ALL.filter((it) => (it.d ? ['assignSame', 'arrowNoJsx', 'userSlot', 'selfAssign', 'fnNoJsx'].includes(it.d) : ['stmt', 'arrowExpr', 'field', 'defparam', 'loopBare'].includes(it.k) && ['identChild', 'callChild', 'frag'].includes(it.l)));

function onceOk(items) {
  const seen = new Set();
  for (const it of items) if (it.d && H.D[it.d].once) { const g = H.D[it.d].group || it.d; if (seen.has(g)) return false; seen.add(g); }
  return true;
}

function* seqOver(alpha, minLen, maxLen) {
  for (const s of sequences(alpha.length, maxLen, { minLen })) {
    const items = s.map((i) => alpha[i]);
    if (onceOk(items)) yield items;
  }
}

function spaces(tier, mk) {
  const thorough = tier === 'thorough';
  const sp = [
    { name: 'H1:all-items', alpha: ALL, min: 0, max: 1 },
    thorough ? { name: 'H2:all×all', alpha: ALL, min: 2, max: 2 } : { name: 'H2:focus×focus', alpha: FOCUS, min: 2, max: 2 },
    thorough ? { name: 'H3:focus-core', alpha: CORE, min: 3, max: 3 } : { name: 'H3:core', alpha: CORE, min: 3, max: 3 },
  ];
  if (thorough) sp.push({ name: 'H4:mini', alpha: MINI, min: 4, max: 4 });
  return sp.map((s) => ({
    name: s.name,
    bounds: { alphabet_size: s.alpha.length, alphabet: s.alpha.length <= 40 ? s.alpha.map(H.itemKey) : `${s.alpha.length} items = contexts ${Object.keys(H.K).length} × lowerings ${Object.keys(H.L).length} (or the focus/core subset) ∪ distractors`, min_length: s.min, max_length: s.max },
    *gen() { for (const items of seqOver(s.alpha, s.min, s.max)) yield mk(items); },
  }));
}

function* shrinkItems(items) {
  for (let i = 0; i < items.length; i++) yield items.slice(0, i).concat(items.slice(i + 1));
  // simplify an item: context → stmt, lowering → plain
  for (let i = 0; i < items.length; i++) {
    const it = items[i];
    if (it.d) continue;
    if (it.k !== 'stmt') yield items.slice(0, i).concat([{ k: 'stmt', l: it.l }], items.slice(i + 1));
    if (it.l !== 'plain') yield items.slice(0, i).concat([{ k: it.k, l: 'plain' }], items.slice(i + 1));
  }
}

const key = (items) => items.map(H.itemKey).join(' ; ') || '(empty)';

module.exports = { ALL, FOCUS, CORE, MINI, spaces, shrinkItems, key, onceOk };
