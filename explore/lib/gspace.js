'use strict';
// Explorer G: the "legal but unusual" JSX grammar (DESIGN §4 C07/C08). No evaluation: facts only.
const { sequences } = require('./spaces');

const TAGS = {
  div: { open: 'div' }, Comp: { open: 'Comp' }, member: { open: 'a.b' }, member3: { open: 'a.b.c' }, thisx: { open: 'this.x', method: true },
  nstag: { open: 'ns:tag' }, svgns: { open: 'svg:rect' }, dashed: { open: 'a-b' }, frag: { open: '' },
};
const ATTR_NAMES = ['{...x}', 'p', 'ns:name', 'v-foo', 'vFoo', 'v-foo:arg_mod', 'v-foo_a-b', 'v-foo_ok_a-b', 'v-foo_a-b_ok_2x', 'v-model_ok_a-b', 'v-', 'v-_lazy', 'v-\u00e9t\u00e9', 'v\u00c9', 'v--x', 'v-model', 'v-model:a', 'v-model_m', 'v-models', 'v-slots', 'v-html', 'v-text', 'v-show', 'on', 'class', 'key', 'ref'];
const ATTR_VALUES = {
  absent: '', str: '="s"', strEmpty: '=""', strNL: '="a\n  b"', strBsl: '="a\\b\\"', strSq: "='a\"b'", x: '={x}', arrEmpty: '={[]}', arrHole: '={[,]}', arrHole2: '={[, x]}', arr1: '={[x]}', arrSpread: '={[...x]}', arrArg: "={[x, 'a']}",
  arrMods: "={[x, ['m']]}", arrOdd: "={[x, y, ['a-b', 'c d', '1x']]}", arr2d: "={[[x], [y, 'n']]}", arr2dOdd: '={[[], [, x], x, [...x]]}', arrModsOdd: '={[x, [y, ...x, 1]]}', arrModsMixed: "={[x, 'a', ['a-b', 'c', '1x', 'ok']]}", arrModsMixed2: "={[x, ['ok', 'x.y']]}",
  member: '={a.b}', index: '={a[0]}', optchain: '={a?.b}', optindex: '={a?.[0]}', optcall: '={a?.()}', call: '={a()}', paren: '={(x)}', thisMember: '={this.x}', assignExpr: '={x = y}',
  el: '=<b/>', frag: '=<></>', elNested: '=<b v-html=<i/> />', obj: '={{ a: x }}', fn: '={() => x}', num: '={1}', tplStr: '={`a${x}`}',
};
const CHILDREN = { spreadJsx: '{...[<i/>, <ns:c/>]}', exprJsx: '{[<i/>, x && <a.b/>]}', none: '', text: 'txt', empty: '{}', cmt: '{/* c */}', el: '<i/>', nsel: '<ns:c/>', spread: '{...x}', member: '<a.b/>', str: '{"s"}' };
const PRAGMAS = {
  none: '', block: '/* @jsx h */\n', jsdoc: '/** @jsx h */\n', words: '/* @jsx h more words */\n', importSource: '/** @jsxImportSource vue */\n', runtime: '/* @jsxRuntime automatic */\n',
  frag: '/* @jsxFrag F */\n', line: '// @jsx h\n', bare: '/* @jsx */\n', multi: '/**\n * @jsx h\n * @license MIT\n */\n', prose: '// we do not set the @jsx pragma here\n',
};
const NAME_CORE = ['{...x}', 'p', 'ns:name', 'v-foo:arg_mod', 'v-model', 'v-models', 'v-slots', 'v-html', 'v-show'];
const VALUE_CORE = ['absent', 'str', 'x', 'arrHole', 'arrOdd', 'arr2d', 'el', 'frag'];

function attrSrc(a) { return a.n[0] === '{' ? a.n : a.n + ATTR_VALUES[a.v]; }

function render(c) {
  const t = TAGS[c.tag];
  const attrs = c.attrs.map(attrSrc).join(' ');
  const kids = CHILDREN[c.ch];
  let J;
  if (c.tag === 'frag') J = `<>${kids}</>`;
  else J = kids ? `<${t.open}${attrs ? ' ' + attrs : ''}>${kids}</${t.open}>` : `<${t.open}${attrs ? ' ' + attrs : ''} />`;
  const body = t.method ? `const ob = { x: Comp, m() { return ${J}; } };\n__out.mk = () => ob.m();` : `__out.mk = () => ${J};`;
  return PRAGMAS[c.pragma || 'none'] + 'const { x, y, Comp, a, h } = __env.bound;\n' + body + '\n';
}

function key(c) {
  return `${c.ts ? 'tsx' : 'jsx'}:${c.pragma && c.pragma !== 'none' ? '@' + c.pragma + ' ' : ''}<${TAGS[c.tag].open} ${c.attrs.map(attrSrc).join(' ')}>${c.ch}${c.o ? ' ' + JSON.stringify(c.o) : ''}`;
}

const OPT_CORNERS = [{}, { optimize: true, transformOn: true }, { mergeProps: false, enableObjectSlots: false }, { optimize: true, resolveType: true, customElementPatterns: ['^a-'] }, { pragma: 'h' }];

function* cases(tier) {
  const thorough = tier === 'thorough';
  const tags = Object.keys(TAGS);
  // (1) every single attribute form on every tag, every child form
  for (const ts of [false, true]) for (const tag of tags) for (const ch of Object.keys(CHILDREN)) {
    if (tag === 'frag') { yield { ts, tag, attrs: [], ch, pragma: 'none' }; continue; }
    yield { ts, tag, attrs: [], ch, pragma: 'none' };
    if (!thorough && !['none', 'text', 'empty', 'el'].includes(ch)) continue;
    for (const n of ATTR_NAMES) for (const v of Object.keys(ATTR_VALUES)) { if (n[0] === '{' && v !== 'absent') continue; yield { ts, tag, attrs: [{ n, v }], ch, pragma: 'none' }; }
  }
  // (2) pairs over the core
  for (const tag of thorough ? tags.filter((t) => t !== 'frag') : ['div', 'Comp', 'nstag']) {
    for (const n1 of NAME_CORE) for (const v1 of VALUE_CORE) for (const n2 of NAME_CORE) for (const v2 of VALUE_CORE) {
      if (n1 === n2) continue;
      if ((n1[0] === '{' && v1 !== 'absent') || (n2[0] === '{' && v2 !== 'absent')) continue;
      yield { ts: false, tag, attrs: [{ n: n1, v: v1 }, { n: n2, v: v2 }], ch: 'none', pragma: 'none' };
    }
  }
  // (2b) the same attribute name written twice (every name × two value kinds, both orders)
  for (const tag of ['div', 'Comp']) for (const n of ATTR_NAMES) if (n[0] !== '{') for (const [v1, v2] of [['x', 'x'], ['x', 'str'], ['str', 'x'], ['absent', 'x'], ['arr1', 'arrArg']]) for (const o of [undefined, { mergeProps: false }, { transformOn: true, optimize: true }]) yield { ts: false, tag, attrs: [{ n, v: v1 }, { n, v: v2 }], ch: 'none', pragma: 'none', o };
  // (3) pragma comments × option corners × a few shapes
  for (const pragma of Object.keys(PRAGMAS)) for (const o of OPT_CORNERS) for (const tag of ['div', 'Comp', 'frag', 'member']) for (const ch of ['none', 'text', 'el']) {
    yield { ts: false, tag, attrs: tag === 'frag' ? [] : [{ n: 'p', v: 'x' }], ch, pragma, o };
  }
  // (4) option corners on single attributes
  for (const o of OPT_CORNERS.slice(1)) for (const tag of ['dashed', 'member', 'nstag']) for (const ch of ['none', 'el']) yield { ts: !!o.resolveType, tag, attrs: [], ch, pragma: 'none', o };
  for (const o of OPT_CORNERS.slice(1)) for (const tag of ['div', 'Comp']) for (const n of ATTR_NAMES) for (const v of VALUE_CORE) if (n[0] !== '{' || v === 'absent') yield { ts: !!o.resolveType, tag, attrs: [{ n, v }], ch: 'none', pragma: 'none', o };
}

function* shrink(c) {
  for (let i = 0; i < c.attrs.length; i++) yield Object.assign({}, c, { attrs: c.attrs.slice(0, i).concat(c.attrs.slice(i + 1)) });
  if (c.ch !== 'none') yield Object.assign({}, c, { ch: 'none' });
  if (c.pragma && c.pragma !== 'none') yield Object.assign({}, c, { pragma: 'none' });
  if (c.o && Object.keys(c.o).length) yield Object.assign({}, c, { o: undefined });
  if (c.ts) yield Object.assign({}, c, { ts: false });
  if (c.tag !== 'div' && c.tag !== 'frag') yield Object.assign({}, c, { tag: 'div' });
  for (let i = 0; i < c.attrs.length; i++) {
    const a = c.attrs[i];
    if (a.v !== 'x') yield Object.assign({}, c, { attrs: c.attrs.slice(0, i).concat([{ n: a.n, v: 'x' }], c.attrs.slice(i + 1)) });
    if (a.n !== 'p') yield Object.assign({}, c, { attrs: c.attrs.slice(0, i).concat([{ n: 'p', v: a.v }], c.attrs.slice(i + 1)) });
  }
}

module.exports = { TAGS, ATTR_NAMES, ATTR_VALUES, CHILDREN, PRAGMAS, render, key, cases, shrink, OPT_CORNERS };
