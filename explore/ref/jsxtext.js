'use strict';
// Reference model: the standard JSX text rule (React / Babel cleanJSXElementLiteralChild), written
// from the property statement: lines split on line breaks (CRLF, LF, CR); tabs count as spaces;
// spaces adjacent to a line break are removed; whitespace-only lines are dropped; the remaining
// lines are joined by one space; every other character (inline leading/trailing spaces, NBSP and
// other Unicode spaces) is preserved. Input is the *decoded* text.
function cleanJsxText(text) {
  const lines = text.split(/\r\n|\n|\r/);
  let lastNonEmpty = 0;
  for (let i = 0; i < lines.length; i++) if (/[^ \t]/.test(lines[i])) lastNonEmpty = i;
  let out = '';
  for (let i = 0; i < lines.length; i++) {
    let line = lines[i].replace(/\t/g, ' ');
    if (i !== 0) line = line.replace(/^ +/, '');
    if (i !== lines.length - 1) line = line.replace(/ +$/, '');
    if (line) {
      if (i !== lastNonEmpty) line += ' ';
      out += line;
    }
  }
  return out;
}
module.exports = { cleanJsxText };
